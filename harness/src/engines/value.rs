//! Engine `value` (C19): the real `types` module (VarInt, Blob, DataType compare / hash / cast / serialize) and the
//! B+tree key comparison against the Lean model `AxVerif.Value`.
//!
//! Case syntax (one per line):
//!   zz <i64> | uzz <u64> | vi.enc <i64> | vi.dec <hex> | vi.read <hex> | vi.cmp <hex> <hex>
//!   blob.enc <hex> | blob.dec <hex> | blob.cmp <hex> <hex>
use super::{Case, Engine, Tier};
use crate::rng::Rng;
use crate::util::{hex, hex_or_dash, unhex};
use axmosdb::types::{Blob, DataTypeKind, DataTypeRef, SerializationError};
use axmosdb::verif::value as hooks;
use std::cmp::Ordering;

pub struct ValueEngine;

fn ser_err(e: &SerializationError) -> &'static str {
    match e {
        SerializationError::InvalidVarIntPrefix => "prefix",
        SerializationError::UnexpectedEof => "eof",
        SerializationError::NotSupported => "unsupported",
        SerializationError::BytemuckError(_) => "bytemuck",
        SerializationError::Io(_) => "io",
        SerializationError::Rkyv(_) => "rkyv",
        SerializationError::Other(_) => "other",
    }
}

fn ord_name(o: Ordering) -> &'static str {
    match o {
        Ordering::Less => "lt",
        Ordering::Equal => "eq",
        Ordering::Greater => "gt",
    }
}

fn exec_line(line: &str) -> String {
    let ws: Vec<&str> = line.split_whitespace().collect();
    match ws.as_slice() {
        ["zz", v] => match v.parse::<i64>() {
            Ok(v) => hooks::zigzag_encode(v).to_string(),
            Err(_) => "bad-op".into(),
        },
        ["uzz", u] => match u.parse::<u64>() {
            Ok(u) => hooks::zigzag_decode(u).to_string(),
            Err(_) => "bad-op".into(),
        },
        ["vi.enc", v] => match v.parse::<i64>() {
            Ok(v) => {
                let e = hooks::varint_encode(v);
                let rt = match hooks::varint_decode(&e) {
                    Ok((v2, used)) if v2 == v && used == e.len() => "rt=ok",
                    _ => "rt=DIFF",
                };
                format!("{} size={} {}", hex(&e), hooks::varint_encoded_size(v), rt)
            }
            Err(_) => "bad-op".into(),
        },
        ["vi.dec", h] => match unhex(h) {
            Some(bs) => match hooks::varint_decode(&bs) {
                Ok((v, used)) => format!("ok {} used={}", v, used),
                Err(e) => format!("err {}", ser_err(&e)),
            },
            None => "bad-op".into(),
        },
        ["vi.read", h] => match unhex(h) {
            Some(bs) => match hooks::varint_read_buf(&bs) {
                Ok(p) => format!("ok {}", hex(&p)),
                Err(e) => format!("err {}", ser_err(&e)),
            },
            None => "bad-op".into(),
        },
        ["vi.cmp", a, b] => match (unhex(a), unhex(b)) {
            (Some(a), Some(b)) => match hooks::varint_cmp(&a, &b) {
                Ok(o) => ord_name(o).into(),
                Err(e) => format!("err {}", ser_err(&e)),
            },
            _ => "bad-op".into(),
        },
        ["blob.enc", h] => match unhex(h) {
            Some(d) => {
                let b = Blob::from_unencoded_slice(&d);
                let e: &[u8] = b.as_ref();
                let rt = match DataTypeKind::Blob.reinterpret_cast(e) {
                    Ok((DataTypeRef::Blob(r), used)) if used == e.len() && r.data().ok() == Some(&d[..]) => "rt=ok",
                    _ => "rt=DIFF",
                };
                let dl = b.data_length().ok() == Some(d.len()) && b.data().ok() == Some(&d[..]);
                format!("{} {}", hex(e), if dl { rt } else { "rt=DIFF" })
            }
            None => "bad-op".into(),
        },
        ["blob.dec", h] => match unhex(h) {
            Some(bs) => match DataTypeKind::Blob.reinterpret_cast(&bs) {
                Ok((DataTypeRef::Blob(r), used)) => match r.data() {
                    Ok(d) => format!("ok data={} used={}", hex_or_dash(d), used),
                    Err(_) => "ok data=ERR".into(),
                },
                Ok(_) => "ok not-a-blob".into(),
                Err(e) => format!("err {}", ser_err(&e)),
            },
            None => "bad-op".into(),
        },
        ["blob.cmp", a, b] => match (unhex(a), unhex(b)) {
            (Some(a), Some(b)) => {
                let x = Blob::from_unencoded_slice(&a);
                let y = Blob::from_unencoded_slice(&b);
                let o = x.partial_cmp(&y);
                // the borrowed form must agree with the owned one
                let o_ref = x.as_blob_ref().partial_cmp(&y.as_blob_ref());
                let eq = x == y;
                let eq_ref = x.as_blob_ref() == y.as_blob_ref();
                if o != o_ref || eq != eq_ref {
                    return format!("REFDIFF owned={:?}/{} ref={:?}/{}", o, eq, o_ref, eq_ref);
                }
                match o {
                    Some(o) => format!("{} eq={}", ord_name(o), eq),
                    None => format!("none eq={}", eq),
                }
            }
            _ => "bad-op".into(),
        },
        _ => "bad-op".into(),
    }
}

impl Engine for ValueEngine {
    fn exec(&mut self, line: &str) -> String {
        exec_line(line)
    }

    fn gen_cases(&self, rng: &mut Rng, tier: Tier) -> Vec<Case> {
        let scale: u64 = if tier == Tier::Quick { 1 } else { 10 };
        let mut cases = Vec::new();
        gen_varint(rng, scale, &mut cases);
        gen_blob(rng, scale, &mut cases);
        cases
    }
}

// ------------------------------------------------------------------------------------------------ generators

/// i64 values on every boundary of the encoding: 7-bit group edges of the zig-zag image, type limits.
fn i64_grid() -> Vec<i64> {
    let mut g: Vec<i64> = vec![0, 1, -1, 2, -2, i64::MIN, i64::MIN + 1, i64::MAX, i64::MAX - 1];
    for k in 1..=9u32 {
        // zigzag(v) < 2^(7k)  <=>  -2^(7k-1) <= v < 2^(7k-1)
        let e: i128 = 1i128 << (7 * k - 1);
        for d in [-2i128, -1, 0, 1] {
            for s in [1i128, -1] {
                let v = s * e + d;
                if v >= i64::MIN as i128 && v <= i64::MAX as i128 {
                    g.push(v as i64);
                }
            }
        }
    }
    for k in [24u32, 31, 32, 53, 62] {
        for d in [-1i64, 0, 1] {
            g.push((1i64 << k).wrapping_add(d));
            g.push((1i64 << k).wrapping_neg().wrapping_add(d));
        }
    }
    g.sort();
    g.dedup();
    g
}

fn rand_i64(rng: &mut Rng) -> i64 {
    match rng.below(4) {
        0 => rng.range(-200, 200),
        1 => {
            let bits = rng.below(64) as u32;
            let v = rng.next_u64() >> (63 - bits.min(63));
            if rng.chance(1, 2) { v as i64 } else { (v as i64).wrapping_neg() }
        }
        2 => *rng.pick(&i64_grid()),
        _ => rng.next_u64() as i64,
    }
}

fn size_tag(n: usize) -> String {
    format!("vlen{}", n)
}

fn gen_varint(rng: &mut Rng, scale: u64, cases: &mut Vec<Case>) {
    let grid = i64_grid();
    for &v in &grid {
        let n = hooks::varint_encoded_size(v);
        let nt = if n > 1 { "nt" } else { "triv" };
        cases.push(Case::new(format!("vi.enc {}", v), &["vi.enc", "grid", &size_tag(n), nt]));
        cases.push(Case::new(format!("zz {}", v), &["zz", "grid", nt]));
        cases.push(Case::new(format!("uzz {}", v as u64), &["uzz", "grid", nt]));
    }
    for u in [0u64, 1, 2, 3, u64::MAX, u64::MAX - 1, 1 << 63, (1 << 63) - 1, (1 << 63) + 1] {
        cases.push(Case::new(format!("uzz {}", u), &["uzz", "grid", "nt"]));
    }
    for _ in 0..1500 * scale {
        let v = rand_i64(rng);
        let n = hooks::varint_encoded_size(v);
        let nt = if n > 1 { "nt" } else { "triv" };
        cases.push(Case::new(format!("vi.enc {}", v), &["vi.enc", "random", &size_tag(n), nt]));
    }
    for _ in 0..300 * scale {
        cases.push(Case::new(format!("zz {}", rand_i64(rng)), &["zz", "random", "nt"]));
        cases.push(Case::new(format!("uzz {}", rng.next_u64()), &["uzz", "random", "nt"]));
    }
    // decoder inputs
    for len in 0..=12usize {
        // nothing but continuation bytes; and the same with a terminator at the very end
        let all = vec![0x80u8 | (len as u8); len];
        cases.push(Case::new(format!("vi.dec {}", hex_or_dash(&all)), &["vi.dec", "dec-unterminated", "nt"]));
        cases.push(Case::new(format!("vi.read {}", hex_or_dash(&all)), &["vi.read", "dec-unterminated", "nt"]));
        let mut t = vec![0xffu8; len];
        t.push(0x01);
        let tag = if t.len() > 10 { "dec-overlong" } else { "dec-maxbits" };
        cases.push(Case::new(format!("vi.dec {}", hex(&t)), &["vi.dec", tag, "nt"]));
        cases.push(Case::new(format!("vi.read {}", hex(&t)), &["vi.read", tag, "nt"]));
    }
    for last in [0x00u8, 0x01, 0x02, 0x03, 0x7e, 0x7f] {
        // ten bytes whose last one carries bits beyond 64
        let mut t = vec![0xffu8; 9];
        t.push(last);
        cases.push(Case::new(format!("vi.dec {}", hex(&t)), &["vi.dec", "dec-bits-dropped", "nt"]));
        let mut z = vec![0x80u8; 9];
        z.push(last);
        cases.push(Case::new(format!("vi.dec {}", hex(&z)), &["vi.dec", "dec-noncanonical", "nt"]));
    }
    for _ in 0..2500 * scale {
        let (bs, tag) = match rng.below(5) {
            0 => (rng.rbytes(0, 14), "dec-random"),
            1 => {
                // valid encoding followed by anything
                let mut e = hooks::varint_encode(rand_i64(rng));
                e.extend(rng.rbytes(0, 4));
                (e, "dec-valid-plus-rest")
            }
            2 => {
                // valid encoding cut short
                let mut e = hooks::varint_encode(rand_i64(rng));
                let cut = rng.below(e.len() as u64) as usize;
                e.truncate(cut);
                (e, "dec-truncated")
            }
            3 => {
                // continuation bytes of random length, then maybe a terminator
                let n = rng.below(13) as usize;
                let mut e: Vec<u8> = (0..n).map(|_| 0x80 | rng.next_u64() as u8).collect();
                if rng.chance(2, 3) {
                    e.push(rng.next_u64() as u8 & 0x7f);
                }
                (e, "dec-structured")
            }
            _ => {
                // non-canonical: padded with 0x80 … 0x00
                let mut e = hooks::varint_encode(rand_i64(rng));
                let l = e.len();
                let pad = rng.below(4) as usize;
                if pad > 0 {
                    e[l - 1] |= 0x80;
                    for _ in 1..pad {
                        e.push(0x80);
                    }
                    e.push(0x00);
                }
                (e, "dec-noncanonical")
            }
        };
        let op = if rng.chance(1, 5) { "vi.read" } else { "vi.dec" };
        cases.push(Case::new(format!("{} {}", op, hex_or_dash(&bs)), &[op, tag, "nt"]));
    }
    for _ in 0..300 * scale {
        let a = hooks::varint_encode(rand_i64(rng));
        let b = if rng.chance(1, 6) { a.clone() } else { hooks::varint_encode(rand_i64(rng)) };
        cases.push(Case::new(format!("vi.cmp {} {}", hex(&a), hex(&b)), &["vi.cmp", "nt"]));
    }
}

/// Byte strings around every length at which the comparator or the length prefix changes behaviour.
fn blob_len_grid() -> Vec<usize> {
    vec![0, 1, 2, 7, 8, 9, 15, 16, 17, 23, 24, 25, 31, 32, 33, 63, 64, 65, 127, 128, 8191, 8192, 8193]
}

fn rand_blob(rng: &mut Rng) -> Vec<u8> {
    let n = match rng.below(6) {
        0 => 0,
        1 => rng.below(9) as usize,
        2 => 8 + rng.below(20) as usize,
        3 => *rng.pick(&blob_len_grid()).min(&200),
        4 => rng.below(70) as usize,
        _ => rng.below(300) as usize,
    };
    match rng.below(4) {
        0 => vec![*rng.pick(&[0u8, 0x7f, 0x80, 0xff, b'a']); n],
        1 => (0..n).map(|_| *rng.pick(&[0u8, 0x7f, 0x80, 0xff])).collect(),
        2 => (0..n).map(|_| b'a' + rng.below(3) as u8).collect(),
        _ => rng.bytes(n),
    }
}

/// A partner for `a` that agrees with it on a long prefix (so that the chunked comparison has to go deep).
fn related_blob(rng: &mut Rng, a: &[u8]) -> (Vec<u8>, &'static str) {
    match rng.below(7) {
        0 => (a.to_vec(), "cmp-identical"),
        1 => {
            let cut = rng.below(a.len() as u64 + 1) as usize;
            (a[..cut].to_vec(), "cmp-prefix")
        }
        2 => {
            let mut b = a.to_vec();
            b.extend(rng.rbytes(1, 10));
            (b, "cmp-extension")
        }
        3 | 4 if !a.is_empty() => {
            let mut b = a.to_vec();
            let i = rng.below(a.len() as u64) as usize;
            b[i] = match rng.below(3) {
                0 => b[i].wrapping_add(1),
                1 => b[i] ^ 0x80,
                _ => rng.next_u64() as u8,
            };
            // optionally also change the length, so that "differs at i" competes with "shorter"
            match rng.below(3) {
                0 => b.truncate(i + 1 + rng.below((a.len() - i) as u64) as usize),
                1 => b.extend(rng.rbytes(0, 9)),
                _ => {}
            }
            (b, "cmp-differs-at")
        }
        _ => (rand_blob(rng), "cmp-unrelated"),
    }
}

fn gen_blob(rng: &mut Rng, scale: u64, cases: &mut Vec<Case>) {
    for &n in &blob_len_grid() {
        let d = rng.bytes(n);
        let nt = if n > 0 { "nt" } else { "triv" };
        cases.push(Case::new(format!("blob.enc {}", hex_or_dash(&d)), &["blob.enc", "grid", nt]));
    }
    for _ in 0..400 * scale {
        let d = rand_blob(rng);
        let nt = if !d.is_empty() { "nt" } else { "triv" };
        cases.push(Case::new(format!("blob.enc {}", hex_or_dash(&d)), &["blob.enc", "random", nt]));
    }
    // decoder
    for _ in 0..2000 * scale {
        let (bs, tag) = match rng.below(6) {
            0 => (rng.rbytes(0, 20), "bdec-random"),
            1 => {
                let b = Blob::from_unencoded_slice(&rand_blob(rng));
                let mut e = b.as_ref().to_vec();
                e.extend(rng.rbytes(0, 5));
                (e, "bdec-valid-plus-rest")
            }
            2 => {
                let d = rand_blob(rng);
                let b = Blob::from_unencoded_slice(&d);
                let mut e = b.as_ref().to_vec();
                let cut = rng.below(e.len() as u64) as usize;
                e.truncate(cut);
                (e, "bdec-truncated")
            }
            3 => {
                // length prefix that is negative (odd zig-zag image)
                let v = -rng.range(1, 40);
                let mut e = hooks::varint_encode(v);
                e.extend(rng.rbytes(0, 6));
                (e, "bdec-negative-len")
            }
            4 => {
                // huge announced length
                let v = match rng.below(3) {
                    0 => i64::MAX,
                    1 => i64::MIN,
                    _ => rand_i64(rng),
                };
                let mut e = hooks::varint_encode(v);
                e.extend(rng.rbytes(0, 6));
                (e, "bdec-any-len")
            }
            _ => {
                // announced length off by a little
                let d = rand_blob(rng);
                let v = (d.len() as i64 + rng.range(-2, 2)).max(0);
                let mut e = hooks::varint_encode(v);
                e.extend(&d);
                (e, "bdec-len-off-by")
            }
        };
        cases.push(Case::new(format!("blob.dec {}", hex_or_dash(&bs)), &["blob.dec", tag, "nt"]));
    }
    // comparator: exhaustive pairs over a small structured grid …
    let mut grid: Vec<Vec<u8>> = vec![vec![]];
    for n in [1usize, 7, 8, 9, 16, 17] {
        for fill in [0x00u8, 0x7f, 0x80, 0xff] {
            grid.push(vec![fill; n]);
        }
        let mut v = vec![0x61u8; n];
        *v.last_mut().unwrap() = 0x62;
        grid.push(v);
    }
    for a in &grid {
        for b in &grid {
            let nt = if a.is_empty() && b.is_empty() { "triv" } else { "nt" };
            cases.push(Case::new(
                format!("blob.cmp {} {}", hex_or_dash(a), hex_or_dash(b)),
                &["blob.cmp", "cmp-grid", nt],
            ));
        }
    }
    // … and related random pairs
    for _ in 0..4000 * scale {
        let a = rand_blob(rng);
        let (b, tag) = related_blob(rng, &a);
        let deep = if a.len().min(b.len()) > 8 { "cmp-chunked" } else { "cmp-bytewise" };
        let (a, b) = if rng.chance(1, 2) { (a, b) } else { (b, a) };
        cases.push(Case::new(
            format!("blob.cmp {} {}", hex_or_dash(&a), hex_or_dash(&b)),
            &["blob.cmp", tag, deep, "nt"],
        ));
    }
}

/// Content of `lean/AxVerif/Generated/Value.lean`, if this engine extracts constants from the code.
pub fn generated() -> Option<(&'static str, String)> {
    None
}
