//! Engine `value` (C19): the real `types` module (VarInt, Blob, DataType compare / hash / cast / serialize) and the
//! B+tree key comparison against the Lean model `AxVerif.Value`.
//!
//! Case syntax (one per line):
//!   zz <i64> | uzz <u64> | vi.enc <i64> | vi.dec <hex> | vi.read <hex> | vi.cmp <hex> <hex>
//!   blob.enc <hex> | blob.dec <hex> | blob.cmp <hex> <hex>
//!   ser <val> | wr <val> <cursor> <extra> | de <kind> <cursor> <hexbuf> | cast <val> <kind>
//!   key <kind,kind…> <search val,val…> <cell val,val…>      (B+tree key comparison, CellComparator)
//!   sql <kind> <val,val…>      (one-column table through the public Database API: ORDER BY, DISTINCT, GROUP BY, IN, =, <, >=, PK)
//!   pair <a> <b> | hash <val> | laws <v1> [<v2> [<v3> [<v4>]]]
//! Values: `n`, `b:0|1`, `i:<i32>`, `I:<i64>`, `u:<u32>`, `U:<u64>`, `f:<f32 bits>`, `d:<f64 bits>`, `x:<hex|->`.
use super::{Case, Engine, Tier};
use crate::rng::Rng;
use crate::util::{hex, hex_or_dash, unhex};
use axmosdb::types::{
    Blob, DataType, DataTypeKind, DataTypeRef, Float32, Float64, Int32, Int64, SerializationError, TypeSystemError,
    UInt32, UInt64,
};
use axmosdb::verif::value as hooks;
use std::cmp::Ordering;

pub struct ValueEngine;

thread_local! {
    /// lazily created comparator; its pager is backed by a scratch file that is unlinked right after creation
    /// (the pager is only touched for overflow cells, which single keys of this size never are)
    static KEYCMP: std::cell::RefCell<Option<hooks::KeyComparator>> = const { std::cell::RefCell::new(None) };
}

fn with_key_comparator<T>(f: impl FnOnce(&hooks::KeyComparator) -> T) -> T {
    KEYCMP.with(|slot| {
        let mut slot = slot.borrow_mut();
        if slot.is_none() {
            let nanos = std::time::SystemTime::now().duration_since(std::time::UNIX_EPOCH).unwrap().as_nanos() as u64;
            let dir = std::env::temp_dir().join(format!("axv-c19-{}-{:x}", std::process::id(), nanos));
            std::fs::create_dir_all(&dir).expect("scratch dir");
            let kc = hooks::KeyComparator::new(dir.join("keys.db")).expect("scratch pager");
            let _ = std::fs::remove_dir_all(&dir);
            *slot = Some(kc);
        }
        f(slot.as_ref().unwrap())
    })
}

fn io_class(e: &std::io::Error) -> &'static str {
    let m = e.to_string();
    if m.contains("Cannot compare null keys") {
        "nullkey"
    } else if e.kind() == std::io::ErrorKind::InvalidInput {
        "build"
    } else {
        "io"
    }
}

fn show_cmp_result(r: &std::io::Result<Ordering>) -> String {
    match r {
        Ok(o) => ord_name(*o).to_string(),
        Err(e) => format!("err {}", io_class(e)),
    }
}

impl ValueEngine {
    fn exec_key(&mut self, ks: &str, tv: &str, cv: &str) -> String {
        let kinds: Option<Vec<DataTypeKind>> = ks.split(',').map(parse_kind).collect();
        let t: Option<Vec<DataType>> = tv.split(',').map(parse_value).collect();
        let c: Option<Vec<DataType>> = cv.split(',').map(parse_value).collect();
        let (Some(kinds), Some(t), Some(c)) = (kinds, t, c) else { return "bad-op".into() };
        if kinds.is_empty() || t.len() != kinds.len() || c.len() != kinds.len() {
            return "bad-op".into();
        }
        match with_key_comparator(|kc| kc.compare(&kinds, &t, &c)) {
            Err(e) => format!("err {}", io_class(&e)),
            Ok(r) => {
                let r1 = show_cmp_result(&r.tuple_mode);
                match r.bare_mode {
                    Some(b) => {
                        let r2 = show_cmp_result(&b);
                        if r1 == r2 { r1 } else { format!("MODEDIFF tuple={} bare={}", r1, r2) }
                    }
                    None => r1,
                }
            }
        }
    }
}

fn ser_err(e: &SerializationError) -> &'static str {
    match e {
        SerializationError::InvalidVarIntPrefix => "prefix",
        SerializationError::UnexpectedEof => "eof",
        SerializationError::NotSupported => "unsupported",
        SerializationError::BytemuckError(_) => "bytemuck",
        SerializationError::Io(_) => "io",
        SerializationError::Rkyv(_) => "rkyv",
        SerializationError::Other(_) => "other",
    }
}

fn ord_name(o: Ordering) -> &'static str {
    match o {
        Ordering::Less => "lt",
        Ordering::Equal => "eq",
        Ordering::Greater => "gt",
    }
}

const KINDS: [(&str, DataTypeKind); 9] = [
    ("null", DataTypeKind::Null),
    ("bool", DataTypeKind::Bool),
    ("int", DataTypeKind::Int),
    ("bigint", DataTypeKind::BigInt),
    ("uint", DataTypeKind::UInt),
    ("biguint", DataTypeKind::BigUInt),
    ("float", DataTypeKind::Float),
    ("double", DataTypeKind::Double),
    ("blob", DataTypeKind::Blob),
];

fn parse_kind(s: &str) -> Option<DataTypeKind> {
    KINDS.iter().find(|(n, _)| *n == s).map(|(_, k)| *k)
}

fn parse_value(s: &str) -> Option<DataType> {
    if s == "n" {
        return Some(DataType::Null);
    }
    let (t, v) = s.split_once(':')?;
    Some(match t {
        "b" => match v {
            "0" => DataType::Bool(false.into()),
            "1" => DataType::Bool(true.into()),
            _ => return None,
        },
        "i" => DataType::Int(Int32(v.parse().ok()?)),
        "I" => DataType::BigInt(Int64(v.parse().ok()?)),
        "u" => DataType::UInt(UInt32(v.parse().ok()?)),
        "U" => DataType::BigUInt(UInt64(v.parse().ok()?)),
        "f" => DataType::Float(Float32(f32::from_bits(v.parse().ok()?))),
        "d" => DataType::Double(Float64(f64::from_bits(v.parse().ok()?))),
        "x" => DataType::Blob(Blob::from_unencoded_slice(&unhex(v)?)),
        _ => return None,
    })
}

fn show_value(v: &DataType) -> String {
    match v {
        DataType::Null => "n".into(),
        DataType::Bool(b) => format!("b:{}", b.value() as u8),
        DataType::Int(i) => format!("i:{}", i.0),
        DataType::BigInt(i) => format!("I:{}", i.0),
        DataType::UInt(i) => format!("u:{}", i.0),
        DataType::BigUInt(i) => format!("U:{}", i.0),
        DataType::Float(f) => format!("f:{}", f.0.to_bits()),
        DataType::Double(f) => format!("d:{}", f.0.to_bits()),
        DataType::Blob(b) => match b.data() {
            Ok(d) => format!("x:{}", hex_or_dash(d)),
            Err(_) => format!("xraw:{}", hex_or_dash(b.as_ref())),
        },
    }
}

/// Bit-exact identity of two values (not `==`, which is what is under test).
fn same_value(a: &DataType, b: &DataType) -> bool {
    show_value(a) == show_value(b)
}

/// A byte buffer whose base address is 8-aligned (bytemuck refuses to reinterpret unaligned memory).
struct AlignedBuf {
    words: Vec<u64>,
    len: usize,
}

impl AlignedBuf {
    fn zeroed(len: usize) -> Self {
        AlignedBuf { words: vec![0u64; len.div_ceil(8) + 1], len }
    }
    fn from(bytes: &[u8]) -> Self {
        let mut b = Self::zeroed(bytes.len());
        b.as_mut().copy_from_slice(bytes);
        b
    }
    fn as_ref(&self) -> &[u8] {
        &bytemuck_bytes(&self.words)[..self.len]
    }
    fn as_mut(&mut self) -> &mut [u8] {
        let len = self.len;
        let p = self.words.as_mut_ptr() as *mut u8;
        // SAFETY: `words` owns at least `len` initialised bytes
        unsafe { std::slice::from_raw_parts_mut(p, len) }
    }
}

fn bytemuck_bytes(w: &[u64]) -> &[u8] {
    // SAFETY: any u64 slice is a valid byte slice of 8× the length
    unsafe { std::slice::from_raw_parts(w.as_ptr() as *const u8, w.len() * 8) }
}

fn align_up(c: usize, a: usize) -> usize {
    (c + a - 1) / a * a
}

fn deser(kind: DataTypeKind, buf: &AlignedBuf, cursor: usize) -> Result<(DataType, usize), String> {
    match kind.deserialize(buf.as_ref(), cursor) {
        Ok((r, c)) => match r.to_owned() {
            Some(v) => Ok((v, c)),
            None => Err("ok-null".into()),
        },
        Err(e) => Err(format!("err {}", ser_err(&e))),
    }
}

/// A `Hasher` that records the byte stream it is fed (what `Hash for DataType` writes), so that hash equality is
/// observed independently of any particular hash function.
#[derive(Default)]
struct Recorder(Vec<u8>);

impl std::hash::Hasher for Recorder {
    fn finish(&self) -> u64 {
        0
    }
    fn write(&mut self, bytes: &[u8]) {
        self.0.extend_from_slice(bytes);
    }
}

fn hash_stream(v: &DataType) -> Vec<u8> {
    use std::hash::Hash;
    let mut r = Recorder::default();
    v.hash(&mut r);
    r.0
}

/// The borrowed form (`DataTypeRef`) of a value: obtained by serializing it and reading it back.
fn ref_buf(v: &DataType) -> Option<AlignedBuf> {
    v.serialize().ok().map(|bs| AlignedBuf::from(&bs))
}

fn to_ref<'a>(v: &DataType, buf: &'a Option<AlignedBuf>) -> Option<DataTypeRef<'a>> {
    if v.is_null() {
        return Some(DataTypeRef::Null);
    }
    let buf = buf.as_ref()?;
    v.kind().deserialize(buf.as_ref(), 0).ok().map(|(r, _)| r)
}

fn cmp_name(o: Option<Ordering>) -> &'static str {
    match o {
        Some(o) => ord_name(o),
        None => "none",
    }
}

fn tf(b: bool) -> &'static str {
    if b { "t" } else { "f" }
}

fn ok_fail(b: bool) -> &'static str {
    if b { "ok" } else { "FAIL" }
}

/// `Sort::compare_keys` for one ascending NULLS FIRST key (runtime/ops/sort.rs:58-89).
fn sort_cmp(a: &DataType, b: &DataType) -> Ordering {
    match (a, b) {
        (DataType::Null, DataType::Null) => Ordering::Equal,
        (DataType::Null, _) => Ordering::Less,
        (_, DataType::Null) => Ordering::Greater,
        _ => a.partial_cmp(b).unwrap_or(Ordering::Equal),
    }
}

fn cls(v: &DataType) -> u8 {
    match v {
        DataType::Null => 0,
        DataType::Bool(_) => 1,
        DataType::Blob(_) => 3,
        _ => 2,
    }
}

fn laws(vs: &[DataType]) -> String {
    let e = |a: &DataType, b: &DataType| a == b;
    let c = |a: &DataType, b: &DataType| a.partial_cmp(b);
    let hs: Vec<Vec<u8>> = vs.iter().map(hash_stream).collect();
    let n = vs.len();
    let (mut refl, mut sym, mut trans, mut ord, mut consist, mut total, mut hash, mut sortord) =
        (true, true, true, true, true, true, true, true);
    for i in 0..n {
        refl &= e(&vs[i], &vs[i]);
        for j in 0..n {
            let (a, b) = (&vs[i], &vs[j]);
            sym &= e(a, b) == e(b, a) && c(a, b) == c(b, a).map(Ordering::reverse);
            if cls(a) != 0 && cls(b) != 0 {
                consist &= (c(a, b) == Some(Ordering::Equal)) == e(a, b);
            }
            if cls(a) != 0 && cls(a) == cls(b) {
                total &= c(a, b).is_some();
            }
            if e(a, b) {
                hash &= hs[i] == hs[j];
            }
            for k in 0..n {
                let x = &vs[k];
                if e(a, b) && e(b, x) {
                    trans &= e(a, x);
                }
                if c(a, b) == Some(Ordering::Less) && c(b, x) == Some(Ordering::Less) {
                    ord &= c(a, x) == Some(Ordering::Less);
                }
                if c(a, b) == Some(Ordering::Equal) {
                    ord &= c(a, x) == c(b, x);
                }
                sortord &= sort_cmp(a, b) == sort_cmp(b, a).reverse();
                if sort_cmp(a, b) == Ordering::Less && sort_cmp(b, x) == Ordering::Less {
                    sortord &= sort_cmp(a, x) == Ordering::Less;
                }
                if sort_cmp(a, b) == Ordering::Equal && sort_cmp(b, x) == Ordering::Equal {
                    sortord &= sort_cmp(a, x) == Ordering::Equal;
                }
            }
        }
    }
    format!(
        "sortord={} refl={} sym={} trans={} ord={} consist={} total={} hash={}",
        ok_fail(sortord),
        ok_fail(refl),
        ok_fail(sym),
        ok_fail(trans),
        ok_fail(ord),
        ok_fail(consist),
        ok_fail(total),
        ok_fail(hash)
    )
}

fn exec_line(line: &str) -> String {
    let ws: Vec<&str> = line.split_whitespace().collect();
    match ws.as_slice() {
        ["zz", v] => match v.parse::<i64>() {
            Ok(v) => hooks::zigzag_encode(v).to_string(),
            Err(_) => "bad-op".into(),
        },
        ["uzz", u] => match u.parse::<u64>() {
            Ok(u) => hooks::zigzag_decode(u).to_string(),
            Err(_) => "bad-op".into(),
        },
        ["vi.enc", v] => match v.parse::<i64>() {
            Ok(v) => {
                let e = hooks::varint_encode(v);
                let rt = match hooks::varint_decode(&e) {
                    Ok((v2, used)) if v2 == v && used == e.len() => "rt=ok",
                    _ => "rt=DIFF",
                };
                format!("{} size={} {}", hex(&e), hooks::varint_encoded_size(v), rt)
            }
            Err(_) => "bad-op".into(),
        },
        ["vi.dec", h] => match unhex(h) {
            Some(bs) => match hooks::varint_decode(&bs) {
                Ok((v, used)) => format!("ok {} used={}", v, used),
                Err(e) => format!("err {}", ser_err(&e)),
            },
            None => "bad-op".into(),
        },
        ["vi.read", h] => match unhex(h) {
            Some(bs) => match hooks::varint_read_buf(&bs) {
                Ok(p) => format!("ok {}", hex(&p)),
                Err(e) => format!("err {}", ser_err(&e)),
            },
            None => "bad-op".into(),
        },
        ["vi.cmp", a, b] => match (unhex(a), unhex(b)) {
            (Some(a), Some(b)) => match hooks::varint_cmp(&a, &b) {
                Ok(o) => ord_name(o).into(),
                Err(e) => format!("err {}", ser_err(&e)),
            },
            _ => "bad-op".into(),
        },
        ["blob.enc", h] => match unhex(h) {
            Some(d) => {
                let b = Blob::from_unencoded_slice(&d);
                let e: &[u8] = b.as_ref();
                let rt = match DataTypeKind::Blob.reinterpret_cast(e) {
                    Ok((DataTypeRef::Blob(r), used)) if used == e.len() && r.data().ok() == Some(&d[..]) => "rt=ok",
                    _ => "rt=DIFF",
                };
                let dl = b.data_length().ok() == Some(d.len()) && b.data().ok() == Some(&d[..]);
                format!("{} {}", hex(e), if dl { rt } else { "rt=DIFF" })
            }
            None => "bad-op".into(),
        },
        ["blob.dec", h] => match unhex(h) {
            Some(bs) => match DataTypeKind::Blob.reinterpret_cast(&bs) {
                Ok((DataTypeRef::Blob(r), used)) => match r.data() {
                    Ok(d) => format!("ok data={} used={}", hex_or_dash(d), used),
                    Err(_) => "ok data=ERR".into(),
                },
                Ok(_) => "ok not-a-blob".into(),
                Err(e) => format!("err {}", ser_err(&e)),
            },
            None => "bad-op".into(),
        },
        ["blob.cmp", a, b] => match (unhex(a), unhex(b)) {
            (Some(a), Some(b)) => {
                let x = Blob::from_unencoded_slice(&a);
                let y = Blob::from_unencoded_slice(&b);
                let o = x.partial_cmp(&y);
                // the borrowed form must agree with the owned one
                let o_ref = x.as_blob_ref().partial_cmp(&y.as_blob_ref());
                let eq = x == y;
                let eq_ref = x.as_blob_ref() == y.as_blob_ref();
                if o != o_ref || eq != eq_ref {
                    return format!("REFDIFF owned={:?}/{} ref={:?}/{}", o, eq, o_ref, eq_ref);
                }
                match o {
                    Some(o) => format!("{} eq={}", ord_name(o), eq),
                    None => format!("none eq={}", eq),
                }
            }
            _ => "bad-op".into(),
        },
        ["ser", v] => match parse_value(v) {
            Some(v) => match v.serialize() {
                Ok(bs) => {
                    let buf = AlignedBuf::from(&bs);
                    let rt = match deser(v.kind(), &buf, 0) {
                        Ok((v2, c)) if same_value(&v, &v2) && c == bs.len() => "rt=ok",
                        _ => "rt=DIFF",
                    };
                    let sz = if v.runtime_size() == bs.len() { "" } else { " SIZEDIFF" };
                    format!("ok {} {}{}", hex_or_dash(&bs), rt, sz)
                }
                Err(e) => format!("err {}", ser_err(&e)),
            },
            None => "bad-op".into(),
        },
        ["wr", v, c, extra] => match (parse_value(v), c.parse::<usize>(), extra.parse::<usize>()) {
            (Some(v), Ok(c), Ok(extra)) if c <= 4096 && extra <= 4096 => {
                if v.is_null() {
                    return match v.serialize() {
                        Err(e) => format!("err {}", ser_err(&e)),
                        Ok(_) => "ok-null".into(),
                    };
                }
                let size = v.runtime_size();
                let mut buf = AlignedBuf::zeroed(align_up(c, v.kind().align()) + size + extra);
                match v.write_to(buf.as_mut(), c) {
                    Ok(c2) => {
                        let rt = match deser(v.kind(), &buf, c) {
                            Ok((v2, c3)) if same_value(&v, &v2) && c3 == c2 => "rt=ok",
                            _ => "rt=DIFF",
                        };
                        format!("ok cur={} buf={} {}", c2, hex_or_dash(buf.as_ref()), rt)
                    }
                    Err(e) => format!("err {}", ser_err(&e)),
                }
            }
            _ => "bad-op".into(),
        },
        ["de", k, c, h] => match (parse_kind(k), c.parse::<usize>(), unhex(h)) {
            (Some(k), Ok(c), Some(bs)) if c <= bs.len() => {
                let buf = AlignedBuf::from(&bs);
                match deser(k, &buf, c) {
                    Ok((v, c2)) => format!("ok {} cur={}", show_value(&v), c2),
                    Err(e) => e,
                }
            }
            _ => "bad-op".into(),
        },
        ["pair", a, b] => match (parse_value(a), parse_value(b)) {
            (Some(a), Some(b)) => {
                let (ha, hb) = (hash_stream(&a), hash_stream(&b));
                let eq = a == b;
                let cmp = a.partial_cmp(&b);
                // the borrowed forms (what the B+tree and the tuple reader compare) must agree with the owned ones
                let (ba, bb) = (ref_buf(&a), ref_buf(&b));
                let ref_ok = match (to_ref(&a, &ba), to_ref(&b, &bb)) {
                    (Some(ra), Some(rb)) => {
                        use std::hash::Hash;
                        let mut h1 = Recorder::default();
                        ra.hash(&mut h1);
                        let mut h2 = Recorder::default();
                        rb.hash(&mut h2);
                        (ra == rb) == eq && ra.partial_cmp(&rb) == cmp && h1.0 == ha && h2.0 == hb
                    }
                    _ => false,
                };
                format!(
                    "eq={} cmp={} heq={} sort={}{} ## ha={} hb={}",
                    tf(eq),
                    cmp_name(cmp),
                    tf(ha == hb),
                    ord_name(sort_cmp(&a, &b)),
                    if ref_ok { "" } else { " REFDIFF" },
                    hex(&ha),
                    hex(&hb)
                )
            }
            _ => "bad-op".into(),
        },
        ["hash", v] => match parse_value(v) {
            Some(v) => hex(&hash_stream(&v)),
            None => "bad-op".into(),
        },
        ["laws", vs @ ..] if !vs.is_empty() && vs.len() <= 4 => {
            let vals: Option<Vec<DataType>> = vs.iter().map(|v| parse_value(v)).collect();
            match vals {
                Some(vals) => laws(&vals),
                None => "bad-op".into(),
            }
        }
        ["cast", v, k] => match (parse_value(v), parse_kind(k)) {
            (Some(v), Some(k)) => match v.try_cast(k) {
                Ok(w) => format!("ok {}", show_value(&w)),
                Err(TypeSystemError::UnexpectedDataType(_)) => "err cast".into(),
                Err(_) => "err other".into(),
            },
            _ => "bad-op".into(),
        },
        _ => "bad-op".into(),
    }
}

// ---- SQL sub-mode ------------------------------------------------------------------------------------------

const P53: i128 = 1 << 53;

/// A SQL expression that evaluates to exactly this value. Numeric literals are lexed as `f64`
/// (sql/parser/lexer.rs), so integers beyond 2^53 are spelled as exact integer arithmetic over smaller literals.
fn sql_literal(v: &DataType) -> Option<String> {
    fn int_lit(n: i128) -> Option<String> {
        let m = n.unsigned_abs() as i128;
        if m >= 1 << 62 {
            return None;
        }
        let pos = if m <= P53 { format!("{}", m) } else { format!("(9007199254740992 * {} + {})", m >> 53, m & (P53 - 1)) };
        Some(if n < 0 { format!("(0 - {})", pos) } else { pos })
    }
    fn float_lit(x: f64) -> Option<String> {
        if !x.is_finite() || (x == 0.0 && x.is_sign_negative()) {
            return None;
        }
        let m = format!("{}", x.abs());
        if m.contains('e') || m.contains('E') {
            return None;
        }
        Some(if x < 0.0 { format!("(0 - {})", m) } else { m })
    }
    match v {
        DataType::Null => Some("NULL".into()),
        DataType::Bool(b) => Some(if b.value() { "TRUE".into() } else { "FALSE".into() }),
        DataType::Int(i) => int_lit(i.0 as i128),
        DataType::BigInt(i) => int_lit(i.0 as i128),
        DataType::UInt(i) => int_lit(i.0 as i128),
        DataType::BigUInt(i) => int_lit(i.0 as i128),
        DataType::Float(f) => float_lit(f.0 as f64),
        DataType::Double(f) => float_lit(f.0),
        DataType::Blob(b) => {
            let d = b.data().ok()?;
            if d.iter().all(|c| c.is_ascii_alphanumeric() || *c == b' ') {
                Some(format!("'{}'", String::from_utf8_lossy(d)))
            } else {
                None
            }
        }
    }
}

fn sql_type(kind: DataTypeKind) -> &'static str {
    match kind {
        DataTypeKind::Bool => "BOOLEAN",
        DataTypeKind::Int => "INT",
        DataTypeKind::BigInt => "BIGINT",
        DataTypeKind::UInt => "UINT",
        DataTypeKind::BigUInt => "BIGUINT",
        DataTypeKind::Float => "FLOAT",
        DataTypeKind::Double => "DOUBLE",
        DataTypeKind::Blob => "TEXT",
        DataTypeKind::Null => "NULL",
    }
}

fn exec_sql(kind: DataTypeKind, vals: &[DataType]) -> String {
    use axmosdb::{DBConfig, Database};
    let lits: Option<Vec<String>> = vals.iter().map(sql_literal).collect();
    let Some(lits) = lits else { return "unsupported-literal".into() };
    let nanos = std::time::SystemTime::now().duration_since(std::time::UNIX_EPOCH).unwrap().as_nanos() as u64;
    let dir = std::env::temp_dir().join(format!("axv-c19-sql-{}-{:x}", std::process::id(), nanos));
    if std::fs::create_dir_all(&dir).is_err() {
        return "ERR:tmpdir".into();
    }
    let out = (|| -> Result<String, String> {
        let db = Database::create(dir.join("v.db"), DBConfig::default()).map_err(|e| format!("ERR:create {}", e))?;
        let run = |sql: &str| db.execute(sql).map_err(|e| format!("ERR:{} ## {}", sql.split(' ').next().unwrap_or(""), e));
        // a single-column result as value strings
        let col = |sql: &str, c: usize| -> Result<Vec<Vec<String>>, String> {
            let rows = run(sql)?.into_rows().ok_or_else(|| "ERR:norows".to_string())?;
            Ok(rows.iterrows().map(|r| r.iter().take(c).map(show_value).collect()).collect())
        };
        let show_l = |xs: Vec<String>| format!("[{}]", xs.join(","));
        run(&format!("CREATE TABLE t (x INT, v {})", sql_type(kind)))?;
        for (i, l) in lits.iter().enumerate() {
            run(&format!("INSERT INTO t VALUES ({}, {})", i, l))?;
        }
        let first = |rows: Vec<Vec<String>>| rows.into_iter().map(|mut r| r.remove(0)).collect::<Vec<_>>();
        let asc = first(col("SELECT v FROM t ORDER BY v", 1)?);
        let desc = first(col("SELECT v FROM t ORDER BY v DESC", 1)?);
        let mut distinct = first(col("SELECT DISTINCT v FROM t", 1)?);
        distinct.sort();
        let mut group: Vec<String> = col("SELECT v, COUNT(*) FROM t GROUP BY v", 2)?
            .into_iter()
            .map(|r| format!("{}:{}", r[0], r[1].trim_start_matches("I:")))
            .collect();
        group.sort();
        let mut s = format!(
            "order={} desc={} distinct={} group={}",
            show_l(asc),
            show_l(desc),
            show_l(distinct),
            show_l(group)
        );
        let nn: Vec<&String> = vals.iter().zip(&lits).filter(|(v, _)| !v.is_null()).map(|(_, l)| l).collect();
        if let Some(p) = nn.first() {
            let q = nn.get(1).unwrap_or(p);
            let xs = |sql: String| -> Result<String, String> {
                let mut r: Vec<i64> = first(col(&sql, 1)?)
                    .iter()
                    .filter_map(|x| x.trim_start_matches("i:").parse().ok())
                    .collect();
                r.sort();
                Ok(show_l(r.iter().map(|x| x.to_string()).collect()))
            };
            s += &format!(" in={}", xs(format!("SELECT x FROM t WHERE v IN ({}, {})", p, q))?);
            s += &format!(" eq={}", xs(format!("SELECT x FROM t WHERE v = {}", p))?);
            s += &format!(" lt={}", xs(format!("SELECT x FROM t WHERE v < {}", p))?);
            s += &format!(" ge={}", xs(format!("SELECT x FROM t WHERE v >= {}", p))?);
            // PRIMARY KEY in a database of its own, and at most six rows: the eighth insert into a table with a
            // primary key aborts in page defragmentation (storage/core/buffer.rs:897, outside this property)
            let dir2 = dir.join("pk");
            std::fs::create_dir_all(&dir2).map_err(|_| "ERR:tmpdir".to_string())?;
            let db2 = Database::create(dir2.join("k.db"), DBConfig::default()).map_err(|e| format!("ERR:create {}", e))?;
            db2.execute(&format!("CREATE TABLE k (v {}, x INT, PRIMARY KEY (v))", sql_type(kind)))
                .map_err(|e| format!("ERR:CREATE ## {}", e))?;
            let mut pk = Vec::new();
            for (i, l) in nn.iter().take(6).enumerate() {
                pk.push(match db2.execute(&format!("INSERT INTO k VALUES ({}, {})", l, i)) {
                    Ok(_) => "o".to_string(),
                    Err(e) if e.to_string().contains("UNIQUE constraint") => "d".to_string(),
                    Err(e) => format!("E ## {}", e),
                });
            }
            s += &format!(" pk={}", show_l(pk));
        }
        Ok(s)
    })();
    let _ = std::fs::remove_dir_all(&dir);
    match out {
        Ok(s) => s,
        Err(e) => e,
    }
}

impl Engine for ValueEngine {
    fn exec(&mut self, line: &str) -> String {
        let ws: Vec<&str> = line.split_whitespace().collect();
        if let ["key", ks, tv, cv] = ws.as_slice() {
            return self.exec_key(ks, tv, cv);
        }
        if let ["sql", k, vs] = ws.as_slice() {
            let kind = parse_kind(k);
            let vals: Option<Vec<DataType>> = vs.split(',').map(parse_value).collect();
            return match (kind, vals) {
                (Some(kind), Some(vals))
                    if kind != DataTypeKind::Null
                        && !vals.is_empty()
                        && vals.len() <= 40
                        && vals.iter().all(|v| v.is_null() || v.kind() == kind) =>
                {
                    exec_sql(kind, &vals)
                }
                _ => "bad-op".into(),
            };
        }
        exec_line(line)
    }

    fn gen_cases(&self, rng: &mut Rng, tier: Tier) -> Vec<Case> {
        let scale: u64 = if tier == Tier::Quick { 1 } else { 10 };
        let mut cases = Vec::new();
        gen_varint(rng, scale, &mut cases);
        gen_blob(rng, scale, &mut cases);
        gen_serialize(rng, scale, &mut cases);
        gen_cast(rng, scale, &mut cases);
        gen_compare(rng, scale, &mut cases);
        gen_keys(rng, scale, &mut cases);
        gen_sql(rng, scale, &mut cases);
        cases
    }
}

// ------------------------------------------------------------------------------------------------ generators

/// i64 values on every boundary of the encoding: 7-bit group edges of the zig-zag image, type limits.
fn i64_grid() -> Vec<i64> {
    let mut g: Vec<i64> = vec![0, 1, -1, 2, -2, i64::MIN, i64::MIN + 1, i64::MAX, i64::MAX - 1];
    for k in 1..=9u32 {
        // zigzag(v) < 2^(7k)  <=>  -2^(7k-1) <= v < 2^(7k-1)
        let e: i128 = 1i128 << (7 * k - 1);
        for d in [-2i128, -1, 0, 1] {
            for s in [1i128, -1] {
                let v = s * e + d;
                if v >= i64::MIN as i128 && v <= i64::MAX as i128 {
                    g.push(v as i64);
                }
            }
        }
    }
    for k in [24u32, 31, 32, 53, 62] {
        for d in [-1i64, 0, 1] {
            g.push((1i64 << k).wrapping_add(d));
            g.push((1i64 << k).wrapping_neg().wrapping_add(d));
        }
    }
    g.sort();
    g.dedup();
    g
}

fn rand_i64(rng: &mut Rng) -> i64 {
    match rng.below(4) {
        0 => rng.range(-200, 200),
        1 => {
            let bits = rng.below(64) as u32;
            let v = rng.next_u64() >> (63 - bits.min(63));
            if rng.chance(1, 2) { v as i64 } else { (v as i64).wrapping_neg() }
        }
        2 => *rng.pick(&i64_grid()),
        _ => rng.next_u64() as i64,
    }
}

fn size_tag(n: usize) -> String {
    format!("vlen{}", n)
}

fn gen_varint(rng: &mut Rng, scale: u64, cases: &mut Vec<Case>) {
    let grid = i64_grid();
    for &v in &grid {
        let n = hooks::varint_encoded_size(v);
        let nt = if n > 1 { "nt" } else { "triv" };
        cases.push(Case::new(format!("vi.enc {}", v), &["vi.enc", "grid", &size_tag(n), nt]));
        cases.push(Case::new(format!("zz {}", v), &["zz", "grid", nt]));
        cases.push(Case::new(format!("uzz {}", v as u64), &["uzz", "grid", nt]));
    }
    for u in [0u64, 1, 2, 3, u64::MAX, u64::MAX - 1, 1 << 63, (1 << 63) - 1, (1 << 63) + 1] {
        cases.push(Case::new(format!("uzz {}", u), &["uzz", "grid", "nt"]));
    }
    for _ in 0..1500 * scale {
        let v = rand_i64(rng);
        let n = hooks::varint_encoded_size(v);
        let nt = if n > 1 { "nt" } else { "triv" };
        cases.push(Case::new(format!("vi.enc {}", v), &["vi.enc", "random", &size_tag(n), nt]));
    }
    for _ in 0..300 * scale {
        cases.push(Case::new(format!("zz {}", rand_i64(rng)), &["zz", "random", "nt"]));
        cases.push(Case::new(format!("uzz {}", rng.next_u64()), &["uzz", "random", "nt"]));
    }
    // decoder inputs
    for len in 0..=12usize {
        // nothing but continuation bytes; and the same with a terminator at the very end
        let all = vec![0x80u8 | (len as u8); len];
        cases.push(Case::new(format!("vi.dec {}", hex_or_dash(&all)), &["vi.dec", "dec-unterminated", "nt"]));
        cases.push(Case::new(format!("vi.read {}", hex_or_dash(&all)), &["vi.read", "dec-unterminated", "nt"]));
        let mut t = vec![0xffu8; len];
        t.push(0x01);
        let tag = if t.len() > 10 { "dec-overlong" } else { "dec-maxbits" };
        cases.push(Case::new(format!("vi.dec {}", hex(&t)), &["vi.dec", tag, "nt"]));
        cases.push(Case::new(format!("vi.read {}", hex(&t)), &["vi.read", tag, "nt"]));
    }
    for last in [0x00u8, 0x01, 0x02, 0x03, 0x7e, 0x7f] {
        // ten bytes whose last one carries bits beyond 64
        let mut t = vec![0xffu8; 9];
        t.push(last);
        cases.push(Case::new(format!("vi.dec {}", hex(&t)), &["vi.dec", "dec-bits-dropped", "nt"]));
        let mut z = vec![0x80u8; 9];
        z.push(last);
        cases.push(Case::new(format!("vi.dec {}", hex(&z)), &["vi.dec", "dec-noncanonical", "nt"]));
    }
    for _ in 0..2500 * scale {
        let (bs, tag) = match rng.below(5) {
            0 => (rng.rbytes(0, 14), "dec-random"),
            1 => {
                // valid encoding followed by anything
                let mut e = hooks::varint_encode(rand_i64(rng));
                e.extend(rng.rbytes(0, 4));
                (e, "dec-valid-plus-rest")
            }
            2 => {
                // valid encoding cut short
                let mut e = hooks::varint_encode(rand_i64(rng));
                let cut = rng.below(e.len() as u64) as usize;
                e.truncate(cut);
                (e, "dec-truncated")
            }
            3 => {
                // continuation bytes of random length, then maybe a terminator
                let n = rng.below(13) as usize;
                let mut e: Vec<u8> = (0..n).map(|_| 0x80 | rng.next_u64() as u8).collect();
                if rng.chance(2, 3) {
                    e.push(rng.next_u64() as u8 & 0x7f);
                }
                (e, "dec-structured")
            }
            _ => {
                // non-canonical: padded with 0x80 … 0x00
                let mut e = hooks::varint_encode(rand_i64(rng));
                let l = e.len();
                let pad = rng.below(4) as usize;
                if pad > 0 {
                    e[l - 1] |= 0x80;
                    for _ in 1..pad {
                        e.push(0x80);
                    }
                    e.push(0x00);
                }
                (e, "dec-noncanonical")
            }
        };
        let op = if rng.chance(1, 5) { "vi.read" } else { "vi.dec" };
        cases.push(Case::new(format!("{} {}", op, hex_or_dash(&bs)), &[op, tag, "nt"]));
    }
    for _ in 0..300 * scale {
        let a = hooks::varint_encode(rand_i64(rng));
        let b = if rng.chance(1, 6) { a.clone() } else { hooks::varint_encode(rand_i64(rng)) };
        cases.push(Case::new(format!("vi.cmp {} {}", hex(&a), hex(&b)), &["vi.cmp", "nt"]));
    }
}

/// Byte strings around every length at which the comparator or the length prefix changes behaviour.
fn blob_len_grid() -> Vec<usize> {
    vec![0, 1, 2, 7, 8, 9, 15, 16, 17, 23, 24, 25, 31, 32, 33, 63, 64, 65, 127, 128, 8191, 8192, 8193]
}

fn rand_blob(rng: &mut Rng) -> Vec<u8> {
    let n = match rng.below(6) {
        0 => 0,
        1 => rng.below(9) as usize,
        2 => 8 + rng.below(20) as usize,
        3 => *rng.pick(&blob_len_grid()).min(&200),
        4 => rng.below(70) as usize,
        _ => rng.below(300) as usize,
    };
    match rng.below(4) {
        0 => vec![*rng.pick(&[0u8, 0x7f, 0x80, 0xff, b'a']); n],
        1 => (0..n).map(|_| *rng.pick(&[0u8, 0x7f, 0x80, 0xff])).collect(),
        2 => (0..n).map(|_| b'a' + rng.below(3) as u8).collect(),
        _ => rng.bytes(n),
    }
}

/// A partner for `a` that agrees with it on a long prefix (so that the chunked comparison has to go deep).
fn related_blob(rng: &mut Rng, a: &[u8]) -> (Vec<u8>, &'static str) {
    match rng.below(7) {
        0 => (a.to_vec(), "cmp-identical"),
        1 => {
            let cut = rng.below(a.len() as u64 + 1) as usize;
            (a[..cut].to_vec(), "cmp-prefix")
        }
        2 => {
            let mut b = a.to_vec();
            b.extend(rng.rbytes(1, 10));
            (b, "cmp-extension")
        }
        3 | 4 if !a.is_empty() => {
            let mut b = a.to_vec();
            let i = rng.below(a.len() as u64) as usize;
            b[i] = match rng.below(3) {
                0 => b[i].wrapping_add(1),
                1 => b[i] ^ 0x80,
                _ => rng.next_u64() as u8,
            };
            // optionally also change the length, so that "differs at i" competes with "shorter"
            match rng.below(3) {
                0 => b.truncate(i + 1 + rng.below((a.len() - i) as u64) as usize),
                1 => b.extend(rng.rbytes(0, 9)),
                _ => {}
            }
            (b, "cmp-differs-at")
        }
        _ => (rand_blob(rng), "cmp-unrelated"),
    }
}

fn gen_blob(rng: &mut Rng, scale: u64, cases: &mut Vec<Case>) {
    for &n in &blob_len_grid() {
        let d = rng.bytes(n);
        let nt = if n > 0 { "nt" } else { "triv" };
        cases.push(Case::new(format!("blob.enc {}", hex_or_dash(&d)), &["blob.enc", "grid", nt]));
    }
    for _ in 0..400 * scale {
        let d = rand_blob(rng);
        let nt = if !d.is_empty() { "nt" } else { "triv" };
        cases.push(Case::new(format!("blob.enc {}", hex_or_dash(&d)), &["blob.enc", "random", nt]));
    }
    // decoder
    for _ in 0..2000 * scale {
        let (bs, tag) = match rng.below(6) {
            0 => (rng.rbytes(0, 20), "bdec-random"),
            1 => {
                let b = Blob::from_unencoded_slice(&rand_blob(rng));
                let mut e = b.as_ref().to_vec();
                e.extend(rng.rbytes(0, 5));
                (e, "bdec-valid-plus-rest")
            }
            2 => {
                let d = rand_blob(rng);
                let b = Blob::from_unencoded_slice(&d);
                let mut e = b.as_ref().to_vec();
                let cut = rng.below(e.len() as u64) as usize;
                e.truncate(cut);
                (e, "bdec-truncated")
            }
            3 => {
                // length prefix that is negative (odd zig-zag image)
                let v = -rng.range(1, 40);
                let mut e = hooks::varint_encode(v);
                e.extend(rng.rbytes(0, 6));
                (e, "bdec-negative-len")
            }
            4 => {
                // huge announced length
                let v = match rng.below(3) {
                    0 => i64::MAX,
                    1 => i64::MIN,
                    _ => rand_i64(rng),
                };
                let mut e = hooks::varint_encode(v);
                e.extend(rng.rbytes(0, 6));
                (e, "bdec-any-len")
            }
            _ => {
                // announced length off by a little
                let d = rand_blob(rng);
                let v = (d.len() as i64 + rng.range(-2, 2)).max(0);
                let mut e = hooks::varint_encode(v);
                e.extend(&d);
                (e, "bdec-len-off-by")
            }
        };
        cases.push(Case::new(format!("blob.dec {}", hex_or_dash(&bs)), &["blob.dec", tag, "nt"]));
    }
    // comparator: exhaustive pairs over a small structured grid …
    let mut grid: Vec<Vec<u8>> = vec![vec![]];
    for n in [1usize, 7, 8, 9, 16, 17] {
        for fill in [0x00u8, 0x7f, 0x80, 0xff] {
            grid.push(vec![fill; n]);
        }
        let mut v = vec![0x61u8; n];
        *v.last_mut().unwrap() = 0x62;
        grid.push(v);
    }
    for a in &grid {
        for b in &grid {
            let nt = if a.is_empty() && b.is_empty() { "triv" } else { "nt" };
            cases.push(Case::new(
                format!("blob.cmp {} {}", hex_or_dash(a), hex_or_dash(b)),
                &["blob.cmp", "cmp-grid", nt],
            ));
        }
    }
    // … and related random pairs
    for _ in 0..4000 * scale {
        let a = rand_blob(rng);
        let (b, tag) = related_blob(rng, &a);
        let deep = if a.len().min(b.len()) > 8 { "cmp-chunked" } else { "cmp-bytewise" };
        let (a, b) = if rng.chance(1, 2) { (a, b) } else { (b, a) };
        cases.push(Case::new(
            format!("blob.cmp {} {}", hex_or_dash(&a), hex_or_dash(&b)),
            &["blob.cmp", tag, deep, "nt"],
        ));
    }
}

// ---- value grids ---------------------------------------------------------------------------------------------

fn i32_grid() -> Vec<i32> {
    let mut g = vec![0, 1, -1, 2, -2, 127, 128, 255, 256, i32::MIN, i32::MIN + 1, i32::MAX, i32::MAX - 1];
    for k in [15u32, 16, 23, 24, 25, 30] {
        for d in [-3i32, -2, -1, 0, 1, 2, 3] {
            g.push((1i32 << k) + d);
            g.push(-(1i32 << k) + d);
        }
    }
    g.sort();
    g.dedup();
    g
}

fn i64_value_grid() -> Vec<i64> {
    let mut g: Vec<i64> = i32_grid().into_iter().map(|v| v as i64).collect();
    g.extend([i64::MIN, i64::MIN + 1, i64::MAX, i64::MAX - 1]);
    for k in [31u32, 32, 33, 52, 53, 54, 55, 62] {
        for d in [-6i64, -3, -2, -1, 0, 1, 2, 3, 6] {
            g.push((1i64 << k) + d);
            g.push(-(1i64 << k) + d);
        }
    }
    // around the last f64 values below 2^63 (spacing 1024) and f32 values (spacing 2^39)
    for d in [511i64, 512, 513, 1023, 1024, 1025, 1535, 1536, 1537] {
        g.push(i64::MAX - d);
        g.push(i64::MIN + d);
    }
    for d in [(1i64 << 38) - 1, 1 << 38, (1 << 38) + 1, (3 << 38) - 1, 3 << 38, (3 << 38) + 1] {
        g.push(i64::MAX - d);
    }
    g.sort();
    g.dedup();
    g
}

fn u32_grid() -> Vec<u32> {
    let mut g = vec![0u32, 1, 2, u32::MAX, u32::MAX - 1, i32::MAX as u32, i32::MAX as u32 + 1, i32::MAX as u32 + 2];
    for k in [23u32, 24, 25, 31] {
        for d in [-3i64, -2, -1, 0, 1, 2, 3] {
            g.push(((1i64 << k) + d) as u32);
        }
    }
    for d in [63u32, 64, 65, 127, 128, 129, 191, 192, 193] {
        g.push(u32::MAX - d);
    }
    g.sort();
    g.dedup();
    g
}

fn u64_grid() -> Vec<u64> {
    let mut g: Vec<u64> = u32_grid().into_iter().map(|v| v as u64).collect();
    g.extend([u64::MAX, u64::MAX - 1, i64::MAX as u64, i64::MAX as u64 + 1, i64::MAX as u64 + 2]);
    for k in [32u32, 52, 53, 54, 55, 62, 63] {
        for d in [-6i128, -3, -2, -1, 0, 1, 2, 3, 6] {
            g.push(((1i128 << k) + d) as u64);
        }
    }
    for d in [1023u64, 1024, 1025, 2047, 2048, 2049, 3071, 3072, 3073] {
        g.push(u64::MAX - d);
    }
    for d in [(1u64 << 39) - 1, 1 << 39, (1 << 39) + 1, (3 << 39) - 1, 3 << 39, (3 << 39) + 1] {
        g.push(u64::MAX - d);
    }
    g.sort();
    g.dedup();
    g
}

fn f64_grid() -> Vec<u64> {
    let mut g: Vec<u64> = Vec::new();
    let mut both = |b: u64| {
        g.push(b);
        g.push(b | (1 << 63));
    };
    for b in [
        0u64,
        1,                     // smallest subnormal
        2,
        0x000f_ffff_ffff_ffff, // largest subnormal
        0x0010_0000_0000_0000, // smallest normal
        0x7fef_ffff_ffff_ffff, // largest finite
        0x7ff0_0000_0000_0000, // inf
        0x7ff0_0000_0000_0001, // signalling NaN
        0x7ff8_0000_0000_0000, // quiet NaN
        0x7ff8_0000_2000_0000,
        0x7fff_ffff_ffff_ffff,
        0x7ff4_0000_0000_0000,
    ] {
        both(b);
    }
    for v in [
        0.5f64,
        0.999_999_999_999_999_9,
        1.0,
        1.000_000_000_000_000_2,
        1.5,
        2.0,
        2.5,
        0.1,
        255.5,
        16_777_215.0,
        16_777_216.0,
        16_777_217.0,
        16_777_218.0,
        2_147_483_646.5,
        2_147_483_647.0,
        2_147_483_647.5,
        2_147_483_648.0,
        2_147_483_648.5,
        2_147_483_649.0,
        4_294_967_295.0,
        4_294_967_295.5,
        4_294_967_296.0,
        9_007_199_254_740_991.0,
        9_007_199_254_740_992.0,
        9_007_199_254_740_994.0,
        9_223_372_036_854_774_784.0, // prev(2^63)
        9_223_372_036_854_775_808.0, // 2^63
        9_223_372_036_854_777_856.0, // next(2^63)
        18_446_744_073_709_549_568.0, // prev(2^64)
        18_446_744_073_709_551_616.0, // 2^64
        18_446_744_073_709_555_712.0, // next(2^64)
        1e19,
        1e300,
        // f32 boundaries seen from f64
        f32::MAX as f64,
        3.402_823_567_797_336_6e38, // f32::MAX + half an ulp (tie → inf)
        3.402_823_567_797_336_5e38,
        3.5e38,
        f32::MIN_POSITIVE as f64,
        1.175_494_280_757_364_3e-38, // just below the smallest f32 normal
        1.401_298_464_324_817e-45,   // smallest f32 subnormal
        7.006_492_321_624_085e-46,   // half of it (tie → 0)
        7.006_492_321_624_087e-46,   // just above (→ smallest subnormal)
        2.101_947_696_487_225_6e-45, // 1.5 × smallest (tie → 2 × smallest)
        1e-50,
        16_777_216.0 + 1.0,
        16_777_218.0 + 1.0, // tie between 16777218 and 16777220 in f32
        33_554_434.0,
    ] {
        both(v.to_bits());
    }
    g.sort();
    g.dedup();
    g
}

fn f32_grid() -> Vec<u32> {
    let mut g: Vec<u32> = Vec::new();
    let mut both = |b: u32| {
        g.push(b);
        g.push(b | (1 << 31));
    };
    for b in [
        0u32, 1, 2, 0x007f_ffff, 0x0080_0000, 0x7f7f_ffff, 0x7f80_0000, 0x7f80_0001, 0x7fc0_0000, 0x7fc0_0001,
        0x7fff_ffff, 0x7fa0_0000,
    ] {
        both(b);
    }
    for v in [
        0.5f32,
        0.999_999_94,
        1.0,
        1.5,
        2.5,
        0.1,
        8_388_607.5,
        16_777_215.0,
        16_777_216.0,
        16_777_218.0,
        2_147_483_520.0, // prev(2^31)
        2_147_483_648.0,
        2_147_483_904.0, // next(2^31)
        4_294_967_040.0, // prev(2^32)
        4_294_967_296.0,
        9_007_199_254_740_992.0,
        9_223_371_487_098_961_920.0, // prev(2^63)
        9_223_372_036_854_775_808.0,
        18_446_742_974_197_923_840.0, // prev(2^64)
        18_446_744_073_709_551_616.0,
        1e30,
    ] {
        both(v.to_bits());
    }
    g.sort();
    g.dedup();
    g
}

fn blob_value_grid() -> Vec<Vec<u8>> {
    vec![
        vec![],
        b"a".to_vec(),
        b"ab".to_vec(),
        b"abc".to_vec(),
        b"b".to_vec(),
        vec![0],
        vec![0, 0],
        vec![0x7f],
        vec![0x80],
        vec![0xff],
        b"abcdefgh".to_vec(),
        b"abcdefghi".to_vec(),
        b"abcdefghj".to_vec(),
        b"abcdefgh\x00".to_vec(),
        vec![b'z'; 64],
        vec![b'z'; 65],
        vec![b'z'; 300],
        {
            let mut v = vec![b'z'; 300];
            v[200] = b'y';
            v
        },
        "é€😀".as_bytes().to_vec(),
    ]
}

/// Every boundary value of every kind, in the line syntax.
fn value_grid() -> Vec<String> {
    let mut g = vec!["n".to_string(), "b:0".into(), "b:1".into()];
    g.extend(i32_grid().iter().map(|v| format!("i:{}", v)));
    g.extend(i64_value_grid().iter().map(|v| format!("I:{}", v)));
    g.extend(u32_grid().iter().map(|v| format!("u:{}", v)));
    g.extend(u64_grid().iter().map(|v| format!("U:{}", v)));
    g.extend(f32_grid().iter().map(|v| format!("f:{}", v)));
    g.extend(f64_grid().iter().map(|v| format!("d:{}", v)));
    g.extend(blob_value_grid().iter().map(|v| format!("x:{}", hex_or_dash(v))));
    g
}

fn rand_f64_bits(rng: &mut Rng) -> u64 {
    match rng.below(6) {
        0 => *rng.pick(&f64_grid()),
        1 => rng.next_u64(),
        2 => (rng.range(-70000, 70000) as f64 / 4.0).to_bits(),
        3 => {
            // an integer-valued or near-integer double of any magnitude
            let e = rng.below(70) as i32;
            let m = (rng.next_u64() >> 11) as f64 / (1u64 << 53) as f64 + 1.0;
            let v = m * 2f64.powi(e);
            (if rng.chance(1, 2) { v } else { -v }).to_bits()
        }
        4 => (rand_i64(rng) as f64).to_bits(),
        _ => {
            // neighbours of a grid value
            let b = *rng.pick(&f64_grid());
            b.wrapping_add(rng.range(-2, 2) as u64)
        }
    }
}

fn rand_f32_bits(rng: &mut Rng) -> u32 {
    match rng.below(5) {
        0 => *rng.pick(&f32_grid()),
        1 => rng.next_u64() as u32,
        2 => (rng.range(-70000, 70000) as f32 / 4.0).to_bits(),
        3 => (rand_i64(rng) as f32).to_bits(),
        _ => rng.pick(&f32_grid()).wrapping_add(rng.range(-2, 2) as u32),
    }
}

fn rand_value(rng: &mut Rng) -> String {
    match rng.below(16) {
        0 => "n".into(),
        1 => format!("b:{}", rng.below(2)),
        2 | 3 => format!("i:{}", if rng.chance(1, 2) { *rng.pick(&i32_grid()) } else { rand_i64(rng) as i32 }),
        4 | 5 | 6 => format!("I:{}", if rng.chance(1, 2) { *rng.pick(&i64_value_grid()) } else { rand_i64(rng) }),
        7 => format!("u:{}", if rng.chance(1, 2) { *rng.pick(&u32_grid()) } else { rng.next_u64() as u32 }),
        8 | 9 => format!("U:{}", if rng.chance(1, 2) { *rng.pick(&u64_grid()) } else { rand_i64(rng) as u64 }),
        10 | 11 => format!("f:{}", rand_f32_bits(rng)),
        12 | 13 | 14 => format!("d:{}", rand_f64_bits(rng)),
        _ => format!("x:{}", hex_or_dash(&rand_blob(rng))),
    }
}

fn kind_tag(v: &str) -> &'static str {
    match v.as_bytes()[0] {
        b'n' => "k-null",
        b'b' => "k-bool",
        b'i' => "k-int",
        b'I' => "k-bigint",
        b'u' => "k-uint",
        b'U' => "k-biguint",
        b'f' => "k-float",
        b'd' => "k-double",
        _ => "k-blob",
    }
}

fn gen_serialize(rng: &mut Rng, scale: u64, cases: &mut Vec<Case>) {
    let grid = value_grid();
    for v in &grid {
        cases.push(Case::new(format!("ser {}", v), &["ser", "grid", kind_tag(v), "nt"]));
    }
    for _ in 0..1500 * scale {
        let v = rand_value(rng);
        cases.push(Case::new(format!("ser {}", v), &["ser", "random", kind_tag(&v), "nt"]));
    }
    // write at every cursor residue, with and without room behind the value
    for v in grid.iter().filter(|v| *v != "n") {
        let c = rng.below(17);
        let extra = *rng.pick(&[0u64, 0, 1, 3, 8]);
        let t = if extra == 0 { "wr-exact-fit" } else { "wr-room-behind" };
        cases.push(Case::new(format!("wr {} {} {}", v, c, extra), &["wr", "grid", t, kind_tag(v), "nt"]));
    }
    for _ in 0..1500 * scale {
        let v = rand_value(rng);
        if v == "n" {
            continue;
        }
        let c = rng.below(33);
        let extra = *rng.pick(&[0u64, 0, 1, 2, 7, 8, 9]);
        let t = if extra == 0 { "wr-exact-fit" } else { "wr-room-behind" };
        cases.push(Case::new(format!("wr {} {} {}", v, c, extra), &["wr", "random", t, kind_tag(&v), "nt"]));
    }
    // deserialize from buffers that hold arbitrary bytes (every bit pattern is some value) — long enough that the
    // fixed-size kinds never run off the end (that is a slice panic in the code, outside this property)
    for _ in 0..1500 * scale {
        let (kname, kind) = *rng.pick(&KINDS[1..]);
        let c = rng.below(12) as usize;
        let (bs, tag) = if kind == DataTypeKind::Blob {
            let mut bs = rng.bytes(c);
            let t = match rng.below(3) {
                0 => {
                    bs.extend(Blob::from_unencoded_slice(&rand_blob(rng)).as_ref());
                    bs.extend(rng.rbytes(0, 4));
                    "de-valid"
                }
                1 => {
                    let e = Blob::from_unencoded_slice(&rand_blob(rng));
                    let e = e.as_ref();
                    bs.extend(&e[..rng.below(e.len() as u64) as usize]);
                    "de-truncated"
                }
                _ => {
                    bs.extend(rng.rbytes(0, 12));
                    "de-random"
                }
            };
            (bs, t)
        } else {
            let need = align_up(c, kind.align()) + kind.fixed_size().unwrap_or(0);
            let extra = rng.below(4) as usize;
            let mut bs = rng.bytes(need + extra);
            if kind == DataTypeKind::Bool && rng.chance(1, 2) {
                bs[c] = rng.below(3) as u8;
            }
            (bs, "de-random")
        };
        cases.push(Case::new(format!("de {} {} {}", kname, c, hex_or_dash(&bs)), &["de", tag, kname, "nt"]));
    }
    cases.push(Case::new("de null 0 00".into(), &["de", "null", "nt"]));
    cases.push(Case::new("de bool 0 -".into(), &["de", "bool", "nt"]));
}

fn gen_cast(rng: &mut Rng, scale: u64, cases: &mut Vec<Case>) {
    // exhaustive: every grid value to every kind
    for v in value_grid() {
        for (kname, _) in KINDS.iter() {
            let t = format!("to-{}", kname);
            cases.push(Case::new(format!("cast {} {}", v, kname), &["cast", "grid", kind_tag(&v), &t, "nt"]));
        }
    }
    for _ in 0..6000 * scale {
        let v = rand_value(rng);
        let (kname, _) = *rng.pick(&KINDS);
        let t = format!("to-{}", kname);
        cases.push(Case::new(format!("cast {} {}", v, kname), &["cast", "random", kind_tag(&v), &t, "nt"]));
    }
}

/// A small grid on which pairs and triples are exhaustive: every kind, every boundary that matters for
/// comparison (2^24, 2^53 ± 1, 2^63, 2^64, ±0.0, NaNs, ±inf, subnormals, empty / prefix / long blobs, NULL).
fn compare_grid() -> Vec<String> {
    let mut g: Vec<String> = vec!["n".into(), "b:0".into(), "b:1".into()];
    for v in [0i32, 1, -1, i32::MIN, i32::MAX, 16777216, 16777217, -16777217] {
        g.push(format!("i:{}", v));
    }
    let p53 = 1i64 << 53;
    for v in [0i64, 1, -1, i64::MIN, i64::MAX, i64::MAX - 1, 16777217, p53 - 1, p53, p53 + 1, p53 + 2, -p53, -p53 - 1, 1 << 62] {
        g.push(format!("I:{}", v));
    }
    for v in [0u32, 1, u32::MAX, 16777217] {
        g.push(format!("u:{}", v));
    }
    for v in [0u64, 1, u64::MAX, u64::MAX - 1, 1 << 53, (1 << 53) + 1, 1 << 63, (1 << 63) + 1, i64::MAX as u64] {
        g.push(format!("U:{}", v));
    }
    for v in [0.0f32, -0.0, 1.0, -1.0, 0.5, 16777216.0, f32::MAX, f32::MIN_POSITIVE, f32::INFINITY, f32::NEG_INFINITY, 0.1] {
        g.push(format!("f:{}", v.to_bits()));
    }
    g.push(format!("f:{}", 0x7fc0_0000u32));
    g.push(format!("f:{}", 0xffc0_0001u32));
    g.push(format!("f:{}", 1u32));
    for v in [
        0.0f64,
        -0.0,
        1.0,
        -1.0,
        0.5,
        0.1,
        0.1f32 as f64,
        16777217.0,
        9007199254740992.0,
        9007199254740994.0,
        -9007199254740992.0,
        9223372036854775808.0,
        -9223372036854775808.0,
        18446744073709551616.0,
        f64::MAX,
        f64::MIN_POSITIVE,
        f64::INFINITY,
        f64::NEG_INFINITY,
    ] {
        g.push(format!("d:{}", v.to_bits()));
    }
    g.push(format!("d:{}", 0x7ff8_0000_0000_0000u64));
    g.push(format!("d:{}", 0xfff8_0000_0000_0001u64));
    g.push(format!("d:{}", 0x7ff0_0000_0000_0001u64));
    g.push(format!("d:{}", 1u64));
    g.push(format!("d:{}", (1u64 << 63) | 1));
    for b in [&b""[..], b"a", b"ab", b"b", &[0u8][..], &[0xffu8][..], b"abcdefgh", b"abcdefghi", b"abcdefghj"] {
        g.push(format!("x:{}", hex_or_dash(b)));
    }
    g.push(format!("x:{}", hex(&vec![b'z'; 300])));
    g
}

fn pair_tags(a: &str, b: &str) -> Vec<String> {
    let mut t = vec!["pair".to_string(), "nt".to_string()];
    t.push(format!("{}~{}", &kind_tag(a)[2..], &kind_tag(b)[2..]));
    t
}

fn gen_compare(rng: &mut Rng, scale: u64, cases: &mut Vec<Case>) {
    let grid = compare_grid();
    // exhaustive pairs on the grid
    for a in &grid {
        cases.push(Case::new(format!("hash {}", a), &["hash", "grid", kind_tag(a), "nt"]));
        for b in &grid {
            let tags = pair_tags(a, b);
            let mut tr: Vec<&str> = tags.iter().map(|s| s.as_str()).collect();
            tr.push("grid");
            cases.push(Case::new(format!("pair {} {}", a, b), &tr));
        }
    }
    // exhaustive triples on the numeric part of the grid would be ~10^5; take all triples of a sub-grid that holds
    // one representative of every phenomenon, and random triples of the full grid
    let sub: Vec<&String> = grid
        .iter()
        .filter(|v| {
            matches!(
                v.as_str(),
                "n" | "b:0" | "b:1" | "i:0" | "i:1" | "I:9007199254740992" | "I:9007199254740993" | "I:9223372036854775807"
                    | "U:9007199254740993" | "U:18446744073709551615" | "U:9223372036854775808" | "f:0" | "f:2147483648"
                    | "f:2143289344" | "d:0" | "d:9223372036854775808" | "d:4845873199050653696" | "d:9221120237041090560"
                    | "d:9218868437227405312" | "d:4890909195324358656" | "x:-" | "x:61" | "x:6162"
            )
        })
        .collect();
    for a in &sub {
        for b in &sub {
            for c in &sub {
                cases.push(Case::new(format!("laws {} {} {}", a, b, c), &["laws", "laws-subgrid", "nt"]));
            }
        }
    }
    for _ in 0..3000 * scale {
        let (a, b, c) = (rng.pick(&grid), rng.pick(&grid), rng.pick(&grid));
        cases.push(Case::new(format!("laws {} {} {}", a, b, c), &["laws", "laws-grid-random", "nt"]));
    }
    // random pairs: a random value against a related one
    let big = value_grid();
    for _ in 0..8000 * scale {
        let a = if rng.chance(1, 2) { rng.pick(&big).clone() } else { rand_value(rng) };
        let b = match rng.below(5) {
            0 => a.clone(),
            1 => rng.pick(&big).clone(),
            2 => rand_value(rng),
            _ => related_value(rng, &a),
        };
        let tags = pair_tags(&a, &b);
        let mut tr: Vec<&str> = tags.iter().map(|s| s.as_str()).collect();
        tr.push("random");
        cases.push(Case::new(format!("pair {} {}", a, b), &tr));
    }
    for _ in 0..1500 * scale {
        let a = rand_value(rng);
        let b = related_value(rng, &a);
        let c = if rng.chance(1, 2) { related_value(rng, &b) } else { rand_value(rng) };
        cases.push(Case::new(format!("laws {} {} {}", a, b, c), &["laws", "laws-random", "nt"]));
    }
    for _ in 0..500 * scale {
        let v = rand_value(rng);
        cases.push(Case::new(format!("hash {}", v), &["hash", "random", kind_tag(&v), "nt"]));
    }
}

fn kind_name_of(v: &str) -> &'static str {
    match v.as_bytes()[0] {
        b'n' => "null",
        b'b' => "bool",
        b'i' => "int",
        b'I' => "bigint",
        b'u' => "uint",
        b'U' => "biguint",
        b'f' => "float",
        b'd' => "double",
        _ => "blob",
    }
}

fn same_kind_value(rng: &mut Rng, kind: &str, grid: &[String]) -> String {
    let pool: Vec<&String> = grid.iter().filter(|v| kind_name_of(v) == kind).collect();
    if !pool.is_empty() && rng.chance(2, 3) {
        return (*rng.pick(&pool)).clone();
    }
    match kind {
        "bool" => format!("b:{}", rng.below(2)),
        "int" => format!("i:{}", rand_i64(rng) as i32),
        "bigint" => format!("I:{}", rand_i64(rng)),
        "uint" => format!("u:{}", rng.next_u64() as u32),
        "biguint" => format!("U:{}", rand_i64(rng) as u64),
        "float" => format!("f:{}", rand_f32_bits(rng)),
        "double" => format!("d:{}", rand_f64_bits(rng)),
        _ => format!("x:{}", hex_or_dash(&rand_blob(rng))),
    }
}

/// Key comparison as the B+tree does it: every same-kind pair of the comparison grid as a single key, and random
/// composite keys (so that alignment padding between key columns and "first difference decides" are exercised).
fn gen_keys(rng: &mut Rng, scale: u64, cases: &mut Vec<Case>) {
    let grid = compare_grid();
    for a in &grid {
        for b in &grid {
            let (ka, kb) = (kind_name_of(a), kind_name_of(b));
            if ka == kb && ka != "null" {
                let t = format!("key-{}", ka);
                cases.push(Case::new(format!("key {} {} {}", ka, a, b), &["key", "key-single", "grid", &t, "nt"]));
            }
        }
    }
    // kind mismatch / NULL keys are refused when the tuple is built
    cases.push(Case::new("key int n i:1".into(), &["key", "key-refused", "nt"]));
    cases.push(Case::new("key int i:1 I:1".into(), &["key", "key-refused", "nt"]));
    cases.push(Case::new("key blob x:61 n".into(), &["key", "key-refused", "nt"]));
    let kinds = ["bool", "int", "bigint", "uint", "biguint", "float", "double", "blob"];
    for _ in 0..3000 * scale {
        let n = 1 + rng.below(4) as usize;
        let ks: Vec<&str> = (0..n).map(|_| *rng.pick(&kinds)).collect();
        let a: Vec<String> = ks.iter().map(|k| same_kind_value(rng, k, &grid)).collect();
        // the partner shares a prefix of columns, so that later columns get to decide
        let share = rng.below(n as u64 + 1) as usize;
        let b: Vec<String> = ks
            .iter()
            .enumerate()
            .map(|(i, k)| {
                if i < share {
                    a[i].clone()
                } else if rng.chance(1, 2) {
                    related_value_same_kind(rng, &a[i], k, &grid)
                } else {
                    same_kind_value(rng, k, &grid)
                }
            })
            .collect();
        let t = if n == 1 { "key-single" } else { "key-composite" };
        let st = format!("key-shared{}", share.min(3));
        cases.push(Case::new(
            format!("key {} {} {}", ks.join(","), a.join(","), b.join(",")),
            &["key", t, &st, "random", "nt"],
        ));
    }
}

/// SQL sub-mode: single-column tables of values that SQL literals can express exactly (no NaN, no -0.0, no
/// infinities, |integers| < 2^62, text of ASCII letters), with duplicates, NULLs, integers around 2^53 and
/// prefix-related strings.
fn gen_sql(rng: &mut Rng, scale: u64, cases: &mut Vec<Case>) {
    let p53 = 1i64 << 53;
    let ints: Vec<i64> = vec![0, 1, -1, 2, 7, -7, 16777216, 16777217, p53 - 1, p53, p53 + 1, p53 + 2, -p53, -p53 - 1, (1 << 61) + 1, 1 << 61];
    let doubles: Vec<f64> = vec![0.0, 1.0, -1.0, 0.5, 1.5, -1.5, 0.25, 2.5, 16777217.0, 9007199254740992.0, 100.125, 1e20, -1e20, 0.1, 0.2, 0.30000000000000004];
    let texts: Vec<&str> = vec!["", "a", "ab", "abc", "abd", "b", "B", "abcdefgh", "abcdefghi", "abcdefghj", "zzzzzzzzzzzzzzzzzzzzzzzz", "a b"];
    let kinds = ["bool", "int", "bigint", "uint", "biguint", "float", "double", "blob"];
    for _ in 0..250 * scale {
        let k = *rng.pick(&kinds);
        let n = 2 + rng.below(9) as usize;
        let mut vals: Vec<String> = Vec::new();
        for _ in 0..n {
            if rng.chance(1, 8) {
                vals.push("n".into());
                continue;
            }
            if !vals.is_empty() && rng.chance(1, 5) {
                vals.push(rng.pick(&vals).clone()); // duplicate
                continue;
            }
            vals.push(match k {
                "bool" => format!("b:{}", rng.below(2)),
                "int" => format!("i:{}", if rng.chance(1, 2) { *rng.pick(&ints[..8]) } else { rng.range(-50, 50) }),
                "bigint" => format!("I:{}", if rng.chance(2, 3) { *rng.pick(&ints) } else { rng.range(-(1 << 60), 1 << 60) }),
                "uint" => format!("u:{}", if rng.chance(1, 2) { rng.pick(&ints[..8]).unsigned_abs() } else { rng.below(1 << 32) }),
                "biguint" => format!("U:{}", if rng.chance(2, 3) { rng.pick(&ints).unsigned_abs() } else { rng.below(1 << 61) }),
                "float" => format!("f:{}", ((rng.range(-4000, 4000) as f32) / 8.0).to_bits()),
                "double" => format!("d:{}", if rng.chance(2, 3) { *rng.pick(&doubles) } else { rng.range(-100000, 100000) as f64 / 16.0 }.to_bits()),
                _ => format!("x:{}", hex_or_dash(rng.pick(&texts).as_bytes())),
            });
        }
        if vals.iter().any(|v| v == "d:9223372036854775808" || v == "f:2147483648") {
            continue; // -0.0 cannot be written as a SQL literal
        }
        let kt = format!("sql-{}", k);
        cases.push(Case::new(format!("sql {} {}", k, vals.join(",")), &["sql", &kt, "nt"]));
    }
}

fn related_value_same_kind(rng: &mut Rng, a: &str, kind: &str, grid: &[String]) -> String {
    for _ in 0..8 {
        let r = related_value(rng, a);
        if kind_name_of(&r) == kind {
            return r;
        }
    }
    same_kind_value(rng, kind, grid)
}

/// A value that is numerically equal or adjacent to `a` but of another kind / encoding where possible.
fn related_value(rng: &mut Rng, a: &str) -> String {
    let Some(v) = parse_value(a) else { return a.to_string() };
    let as_i128: Option<i128> = match &v {
        DataType::Int(i) => Some(i.0 as i128),
        DataType::BigInt(i) => Some(i.0 as i128),
        DataType::UInt(i) => Some(i.0 as i128),
        DataType::BigUInt(i) => Some(i.0 as i128),
        DataType::Float(f) if f.0.is_finite() && f.0.abs() < 1e19 => Some(f.0 as i128),
        DataType::Double(f) if f.0.is_finite() && f.0.abs() < 1e19 => Some(f.0 as i128),
        _ => None,
    };
    match (&v, as_i128) {
        (DataType::Blob(b), _) => {
            let d = b.data().unwrap_or(&[]).to_vec();
            format!("x:{}", hex_or_dash(&related_blob(rng, &d).0))
        }
        (_, Some(n)) => {
            let n = n + rng.range(-1, 1) as i128;
            match rng.below(6) {
                0 if n >= i32::MIN as i128 && n <= i32::MAX as i128 => format!("i:{}", n),
                1 if n >= 0 && n <= u32::MAX as i128 => format!("u:{}", n),
                2 if n >= 0 && n <= u64::MAX as i128 => format!("U:{}", n),
                3 => format!("f:{}", (n as f32).to_bits()),
                4 => format!("d:{}", (n as f64).to_bits()),
                _ if n >= i64::MIN as i128 && n <= i64::MAX as i128 => format!("I:{}", n),
                _ => format!("d:{}", (n as f64).to_bits()),
            }
        }
        (DataType::Double(f), None) => match rng.below(3) {
            0 => format!("f:{}", (f.0 as f32).to_bits()),
            1 => format!("d:{}", f.0.to_bits() ^ (1 << 63)),
            _ => format!("d:{}", f.0.to_bits().wrapping_add(rng.range(-1, 1) as u64)),
        },
        (DataType::Float(f), None) => match rng.below(3) {
            0 => format!("d:{}", (f.0 as f64).to_bits()),
            1 => format!("f:{}", f.0.to_bits() ^ (1 << 31)),
            _ => format!("f:{}", f.0.to_bits().wrapping_add(rng.range(-1, 1) as u32)),
        },
        _ => rand_value(rng),
    }
}

/// `Generated/Value.lean`: the constants and tables of the type system as the code defines them, obtained by
/// evaluating the code (kind discriminants, sizes, alignments, `MAX_VARINT_LEN`, key offset, cast matrix).
pub fn generated() -> Option<(&'static str, String)> {
    let mut s = String::new();
    s.push_str("/- REGENERATED on every run by `axh extract` from values evaluated out of /repo. Do not edit. -/\n");
    s.push_str("import AxVerif.Model.Value\n");
    s.push_str("namespace AxVerif.Generated\n\n");
    s.push_str("def valueParams : AxVerif.Value.Params :=\n");
    s.push_str(&format!("  {{ maxVarintLen := {}\n", hooks::max_varint_len()));
    let mut kinds = Vec::new();
    let mut all = Vec::new();
    for d in 0u8..=255 {
        if let Some(k) = DataTypeKind::from_repr(d) {
            let size = match k.fixed_size() {
                Some(n) => format!("some {}", n),
                None => "none".to_string(),
            };
            kinds.push(format!(
                "(\"{}\", {}, {}, {}, {})",
                k.name().to_lowercase(),
                k.as_u8(),
                size,
                k.align(),
                k.is_numeric()
            ));
            all.push(k);
        }
    }
    s.push_str(&format!("    kinds := [{}]\n", kinds.join(", ")));
    s.push_str(&format!("    keysOffset1 := {}\n", hooks::keys_offset(1)));
    let sample = |k: DataTypeKind| -> DataType {
        match k {
            DataTypeKind::Null => DataType::Null,
            DataTypeKind::Bool => DataType::Bool(true.into()),
            DataTypeKind::Int => DataType::Int(Int32(1)),
            DataTypeKind::BigInt => DataType::BigInt(Int64(1)),
            DataTypeKind::UInt => DataType::UInt(UInt32(1)),
            DataTypeKind::BigUInt => DataType::BigUInt(UInt64(1)),
            DataTypeKind::Float => DataType::Float(Float32(1.0)),
            DataTypeKind::Double => DataType::Double(Float64(1.0)),
            DataTypeKind::Blob => DataType::Blob(Blob::from_unencoded_slice(b"a")),
        }
    };
    let mut ok = Vec::new();
    for a in &all {
        for b in &all {
            if sample(*a).try_cast(*b).is_ok() {
                ok.push(format!("({}, {})", a.as_u8(), b.as_u8()));
            }
        }
    }
    s.push_str(&format!("    castOk := [{}] }}\n", ok.join(", ")));
    s.push_str("\nend AxVerif.Generated\n");
    Some(("Value.lean", s))
}
