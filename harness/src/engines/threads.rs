//! Engine `threads` (C14) — judge mode.
//!
//! One case = N client threads (2–8) that use ONE database at the same time through the public API only
//! (`Database::execute`, `Database::session` + `Session::{execute, commit_transaction, abort_transaction}`), each with its own small
//! program, started together behind a barrier and paced by a seeded mix of spins / yields / short sleeps.  Every call is
//! bracketed by two tickets of one global counter (taken immediately before the call is issued and immediately after it has
//! returned), runs under a watchdog (10 s bound + 10 s grace, see GRACE_MS), and its outcome is recorded.  The observation is judged by the Lean driver
//! (`Driver/Threads.lean`): no internal error, `checkSerialSI` accepts, final contents agree.
//!
//! Case syntax (one line):
//!   threads <setup…> | t<i> <op> ; t<j> <op> ; …
//!   setup  tab=<name>(<col>:<type>[!][*],…)   as engine `hist` (cfg/C04.py)
//!          row=<table>:<v>,<v>,…              committed initial row
//!          fill=<table>:<n>:<pad>             n more initial rows (1000+i, i, 'x'*pad), i = 1..n, table shape (k:big,v:int,p:text);
//!                                             inserted by autocommit statements of 20 rows each (builds multi-level trees)
//!          cache=<pages> pool=<workers> pace=<seed>
//!          yield=<tag>:<permille>:<max_us>    at the yield point <tag> inside the database (axmosdb::verif::sched::TAGS) the calling
//!                                             thread is delayed by 1..max_us microseconds on <permille> of 1000 hits; which hits and for
//!                                             how long is a function of the pace seed, the tag and the hit number
//!   op     begin | commit | rollback          the thread's session (one transaction at a time)
//!          <stmt>                             statement in the thread's open session
//!          db <stmt>                          Database::execute (autocommit) from that thread
//!          flush                              Database::flush from that thread
//!          db subq <table>                    `SELECT * FROM <table> WHERE k IN (SELECT k FROM <table>)` (autocommit): a statement the
//!                                             engine does not support; admissible outcome: an error (class `other`), no effect.
//!                                             On this tree its evaluation panics (runtime/eval.rs) in the pool worker that runs it
//!   stmt   as engine `hist`: sel | ins | upd | del
//!   The op list is one list only for the sake of shrinking: what is executed is, per thread, the subsequence of its ops.
//!
//! Observation syntax:
//!   <kind> <call> <call> … | <table>=[rows] …
//!   kind   run | interr (some call failed with an unexpected class) | hang:<t<i>#<k>,…> (calls that did not return within
//!          the bound plus grace; k = index within the thread) | protocol:<tag> (a section that relies on a lock was entered
//!          without it, reported by the yield point <tag>) | panic@<file:line>[,hang:…] (first panic of any thread of the process during the case)
//!   call   t<i>:<t0>:<t1>:<out>              out as engine `hist` (ok | ok<n> | [rows] | conflict | constraint | … | nosession)
//!   final contents are read by the harness after all client threads have finished (absent after a hang: `-`)
use super::hist::{self, Op as HOp, Stmt, Table};
use super::{Case, Engine, Tier};
use crate::rng::Rng;
use axmosdb::runtime::QueryResult;
use axmosdb::tcp::session::Session;
use axmosdb::{DBConfig, DataType, Database};
use std::sync::atomic::{AtomicBool, AtomicU64, Ordering};
use std::sync::{Arc, Barrier, Mutex};
use std::time::{Duration, Instant};

pub struct ThreadsEngine;

pub fn generated() -> Option<(&'static str, String)> {
    None
}

/// bound on one call
const CALL_TIMEOUT_MS: u64 = 10_000;
/// a call that is over the bound is given this much longer before it is declared hung: a deadlock never returns, a stall of
/// the machine (seen by other engines while many builds were running) does; a call that returns late is reported in the
/// diagnostics (`slow-call`) and judged like any other
const GRACE_MS: u64 = 10_000;

// ------------------------------------------------------------------------------------------------ case syntax

#[derive(Clone, Debug)]
enum TOp {
    Begin,
    Commit,
    Rollback,
    Exec(Stmt),
    Auto(Stmt),
    Flush,
    SubQ(String),
}

struct Setup {
    tables: Vec<Table>,
    rows: Vec<(String, Vec<hist::Val>)>,
    fills: Vec<(String, usize, usize)>,
    cache: usize,
    pool: usize,
    pace: u64,
    /// (tag, permille, max_us)
    yields: Vec<(&'static str, u64, u64)>,
}

struct ParsedCase {
    setup: Setup,
    /// (thread id, op) in line order
    ops: Vec<(usize, TOp)>,
}

fn parse_case(line: &str) -> Option<ParsedCase> {
    let body = line.trim().strip_prefix("threads ")?;
    let (setup_s, ops_s) = body.split_once('|')?;
    let mut hist_words: Vec<&str> = Vec::new();
    let mut st = Setup { tables: vec![], rows: vec![], fills: vec![], cache: 10000, pool: 4, pace: 0, yields: vec![] };
    for w in setup_s.split_whitespace() {
        if let Some(v) = w.strip_prefix("cache=") {
            st.cache = canon_num(v)? as usize;
        } else if let Some(v) = w.strip_prefix("pool=") {
            st.pool = canon_num(v)? as usize;
            if st.pool == 0 || st.pool > 64 {
                return None;
            }
        } else if let Some(v) = w.strip_prefix("pace=") {
            st.pace = canon_num(v)?;
        } else if let Some(v) = w.strip_prefix("yield=") {
            let parts: Vec<&str> = v.split(':').collect();
            if parts.len() != 3 {
                return None;
            }
            let tag = *axmosdb::verif::sched::TAGS.iter().find(|t| **t == parts[0])?;
            let permille = canon_num(parts[1])?;
            let max_us = canon_num(parts[2])?;
            if permille > 1000 || max_us == 0 || max_us > 50_000 {
                return None;
            }
            st.yields.push((tag, permille, max_us));
        } else if let Some(v) = w.strip_prefix("fill=") {
            let parts: Vec<&str> = v.split(':').collect();
            if parts.len() != 3 {
                return None;
            }
            let n = canon_num(parts[1])? as usize;
            let pad = canon_num(parts[2])? as usize;
            if n > 5000 || pad > 2000 {
                return None;
            }
            st.fills.push((parts[0].to_string(), n, pad));
        } else if w == "fresh" {
            return None;
        } else {
            hist_words.push(w);
        }
    }
    // tables and rows go through the `hist` parser
    let (hs, _) = hist::parse_case(&format!("hist {} |", hist_words.join(" ")))?;
    st.tables = hs.tables;
    for it in hs.items {
        match it {
            hist::Item::Row(t, vals) => st.rows.push((t, vals)),
            // constraints added after creation are not part of this engine's cases
            hist::Item::Con(..) => return None,
        }
    }
    // multi-column keys are not part of this engine's cases either (single-column `*` / `!` flags are)
    if st.tables.iter().any(|t| !t.keys.is_empty()) {
        return None;
    }
    for (t, _, _) in &st.fills {
        let tab = st.tables.iter().find(|x| &x.name == t)?;
        let shape: Vec<&str> = tab.cols.iter().map(|c| c.ty.as_str()).collect();
        if shape != ["big", "int", "text"] {
            return None;
        }
    }
    let mut ops = Vec::new();
    let ops_s = ops_s.trim();
    if !ops_s.is_empty() {
        for o in ops_s.split(" ; ") {
            let o = o.trim();
            let (tid_s, rest) = o.split_once(' ')?;
            let tid = canon_num(tid_s.strip_prefix('t')?)? as usize;
            if tid == 0 || tid > 16 {
                return None;
            }
            let rest = rest.trim();
            let op = match rest {
                "begin" => TOp::Begin,
                "commit" => TOp::Commit,
                "rollback" => TOp::Rollback,
                "flush" => TOp::Flush,
                _ => {
                    if let Some(t) = rest.strip_prefix("db subq ") {
                        let t = t.trim();
                        if !st.tables.iter().any(|x| x.name == t) {
                            return None;
                        }
                        TOp::SubQ(t.to_string())
                    } else if let Some(s) = rest.strip_prefix("db ") {
                        if s.trim_start().starts_with("batch") {
                            return None;
                        }
                        match hist::parse_case(&format!("hist | db {}", s))?.1.pop()? {
                            HOp::Auto(st) => TOp::Auto(st),
                            _ => return None,
                        }
                    } else {
                        match hist::parse_case(&format!("hist | s1 {}", rest))?.1.pop()? {
                            HOp::Exec(_, st) => TOp::Exec(st),
                            _ => return None,
                        }
                    }
                }
            };
            ops.push((tid, op));
        }
    }
    Some(ParsedCase { setup: st, ops })
}

/// canonical decimal without sign or leading zeros
fn canon_num(s: &str) -> Option<u64> {
    let n: u64 = s.parse().ok()?;
    if n.to_string() != s {
        return None;
    }
    Some(n)
}

fn sql_create(t: &Table) -> String {
    let mut cols: Vec<String> = Vec::new();
    let mut uniq: Vec<String> = Vec::new();
    for c in &t.cols {
        let ty = match c.ty.as_str() {
            "big" => "BIGINT",
            "int" => "INT",
            _ => "TEXT",
        };
        cols.push(format!("{} {}{}", c.name, ty, if c.not_null { " NOT NULL" } else { "" }));
        if c.unique {
            uniq.push(format!("UNIQUE({})", c.name));
        }
    }
    cols.extend(uniq);
    format!("CREATE TABLE {} ({})", t.name, cols.join(", "))
}

// ------------------------------------------------------------------------------------------------ outcome classes

/// Error classes, read off the `Display` text (the task runner hands every error over as a string), as in engine `hist`.
fn err_class(msg: &str) -> &'static str {
    let m = msg.to_ascii_lowercase();
    if m.contains("conflict") {
        "conflict"
    } else if m.contains("constraint validation error") || m.contains("unique") || m.contains("not null") || m.contains("null constraint") {
        "constraint"
    } else if m.contains("not found") || m.contains("does not exist") || m.contains("notfound") {
        "notfound"
    } else if m.contains("type error") || m.contains("cast") || m.contains("type mismatch") || m.contains("datatype") {
        "type"
    } else {
        "other"
    }
}

fn show_dt(d: &DataType) -> String {
    match d {
        DataType::Null => "null".into(),
        DataType::Int(v) => v.value().to_string(),
        DataType::BigInt(v) => v.value().to_string(),
        DataType::UInt(v) => v.value().to_string(),
        DataType::BigUInt(v) => v.value().to_string(),
        DataType::Blob(b) => format!("'{}'", String::from_utf8_lossy(b.data().unwrap_or(&[]))),
        other => format!("?{:?}", other).replace(' ', "_"),
    }
}

/// long pad texts are abbreviated `'<c>*<n>'` when they consist of n > 8 copies of one letter (keeps observation lines short)
fn abbreviate(s: String) -> String {
    let b = s.as_bytes();
    if b.len() > 10 && b[0] == b'\'' && b[b.len() - 1] == b'\'' && b[1..b.len() - 1].iter().all(|c| *c == b[1]) {
        format!("'{}*{}'", b[1] as char, b.len() - 2)
    } else {
        s
    }
}

fn show_result(r: Result<QueryResult, String>, is_read: bool, diag: &mut Vec<String>) -> String {
    match r {
        Ok(QueryResult::Rows(rows)) => {
            let mut out: Vec<String> =
                rows.iterrows().map(|r| r.iter().map(|d| abbreviate(show_dt(d))).collect::<Vec<_>>().join(",")).collect();
            out.sort();
            format!("[{}]", out.join(";"))
        }
        Ok(QueryResult::RowsAffected(n)) => {
            if is_read { format!("?affected{}", n) } else { format!("ok{}", n) }
        }
        Ok(QueryResult::Ddl(_)) => "ddl".into(),
        Err(e) => {
            diag.push(e.chars().filter(|c| *c != '\n').take(160).collect());
            err_class(&e).to_string()
        }
    }
}

// ------------------------------------------------------------------------------------------------ panic capture

/// Panics of ANY thread of the process (pool workers of the database included) are recorded here; the hook installed by
/// `main.rs` only keeps a thread-local note, which a worker thread's panic would never reach the case's thread with.
static PANICS: Mutex<Vec<String>> = Mutex::new(Vec::new());
static HOOKED: AtomicBool = AtomicBool::new(false);

fn install_hook() {
    if HOOKED.swap(true, Ordering::SeqCst) {
        return;
    }
    let prev = std::panic::take_hook();
    std::panic::set_hook(Box::new(move |info| {
        let loc = info
            .location()
            .map(|l| {
                let f = l.file();
                let f = f.rsplit_once("/src/").map(|x| x.1).unwrap_or(f);
                format!("{}:{}", f, l.line())
            })
            .unwrap_or_else(|| "?".into());
        if let Ok(mut p) = PANICS.lock() {
            p.push(loc);
        }
        prev(info);
    }));
}

// ------------------------------------------------------------------------------------------------ yield points

/// Seeded perturbation at the yield points of the database (feature `verif`).  The *decisions* are a function of
/// (seed, tag, hit number); the interleaving that results still belongs to the OS scheduler.
struct YieldPlan {
    seed: u64,
    sites: Vec<(&'static str, u64, u64, AtomicU64, AtomicU64)>, // tag, permille, max_us, hits, delays
}

fn mix(mut z: u64) -> u64 {
    z = z.wrapping_add(0x9E3779B97F4A7C15);
    z = (z ^ (z >> 30)).wrapping_mul(0xBF58476D1CE4E5B9);
    z = (z ^ (z >> 27)).wrapping_mul(0x94D049BB133111EB);
    z ^ (z >> 31)
}

impl YieldPlan {
    fn at(&self, tag: &'static str) {
        for (i, (t, permille, max_us, hits, delays)) in self.sites.iter().enumerate() {
            if *t != tag {
                continue;
            }
            let n = hits.fetch_add(1, Ordering::Relaxed);
            let h = mix(self.seed ^ mix(i as u64 + 1) ^ n);
            if h % 1000 < *permille {
                delays.fetch_add(1, Ordering::Relaxed);
                let us = 1 + (h >> 20) % *max_us;
                if us < 60 {
                    let t0 = Instant::now();
                    while (t0.elapsed().as_micros() as u64) < us {
                        std::hint::spin_loop();
                    }
                } else {
                    std::thread::sleep(Duration::from_micros(us));
                }
            }
        }
    }
    fn summary(&self) -> String {
        let parts: Vec<String> = self
            .sites
            .iter()
            .map(|(t, _, _, hits, delays)| format!("{}:{}/{}", t, delays.load(Ordering::Relaxed), hits.load(Ordering::Relaxed)))
            .collect();
        format!("yields={}", parts.join(","))
    }
}

// ------------------------------------------------------------------------------------------------ scratch directories

static COUNTER: AtomicU64 = AtomicU64::new(0);

fn scratch_dir() -> std::path::PathBuf {
    let n = COUNTER.fetch_add(1, Ordering::SeqCst);
    if n == 0 {
        // exec children that were killed (hang) could not remove their directories: sweep those of dead processes
        if let Ok(rd) = std::fs::read_dir(std::env::temp_dir()) {
            for e in rd.flatten() {
                let name = e.file_name().to_string_lossy().to_string();
                if let Some(rest) = name.strip_prefix("axv-threads-") {
                    let pid = rest.split('-').next().unwrap_or("");
                    if !pid.is_empty() && !std::path::Path::new("/proc").join(pid).exists() {
                        let _ = std::fs::remove_dir_all(e.path());
                    }
                }
            }
        }
    }
    let d = std::env::temp_dir().join(format!("axv-threads-{}-{}", std::process::id(), n));
    let _ = std::fs::remove_dir_all(&d);
    std::fs::create_dir_all(&d).unwrap();
    d
}

// ------------------------------------------------------------------------------------------------ execution

struct CallRec {
    t0: u64,
    t1: u64,
    out: String,
    /// the statement is one that has to fail (subq): `other` is its admissible outcome
    must_fail: bool,
}

struct ThreadShared {
    /// 0 = no call in flight; else 1 + milliseconds since the case started at which the current call was issued
    in_call_since: AtomicU64,
    done: AtomicBool,
    recs: Mutex<Vec<CallRec>>,
    diag: Mutex<Vec<String>>,
}

fn pace(rng: &mut Rng) {
    match rng.below(10) {
        0..=3 => {}
        4 | 5 => std::thread::yield_now(),
        6..=8 => {
            let us = rng.range(1, 60) as u64;
            let t = Instant::now();
            while (t.elapsed().as_micros() as u64) < us {
                std::hint::spin_loop();
            }
        }
        _ => std::thread::sleep(Duration::from_micros(rng.range(50, 600) as u64)),
    }
}

fn client(
    db: Arc<Database>,
    ops: Vec<TOp>,
    mut rng: Rng,
    sh: Arc<ThreadShared>,
    ticket: Arc<AtomicU64>,
    start: Instant,
    barrier: Arc<Barrier>,
) {
    let mut session: Option<Session> = None;
    barrier.wait();
    for op in ops {
        pace(&mut rng);
        let mut diag: Vec<String> = Vec::new();
        sh.in_call_since.store(1 + start.elapsed().as_millis() as u64, Ordering::SeqCst);
        let t0 = ticket.fetch_add(1, Ordering::SeqCst);
        let out = match &op {
            TOp::Begin => {
                // an open transaction of this thread is dropped first (= rollback)
                session = None;
                match db.session() {
                    Ok(s) => {
                        session = Some(s);
                        "ok".to_string()
                    }
                    Err(e) => {
                        diag.push(e.to_string().chars().take(160).collect());
                        err_class(&e.to_string()).to_string()
                    }
                }
            }
            TOp::Commit => match session.take() {
                None => "nosession".into(),
                Some(mut s) => match s.commit_transaction() {
                    Ok(()) => "ok".to_string(),
                    Err(e) => {
                        diag.push(e.to_string().chars().take(160).collect());
                        err_class(&e.to_string()).to_string()
                    }
                },
            },
            TOp::Rollback => match session.take() {
                None => "nosession".into(),
                Some(mut s) => match s.abort_transaction() {
                    Ok(()) => "ok".to_string(),
                    Err(e) => {
                        diag.push(e.to_string().chars().take(160).collect());
                        err_class(&e.to_string()).to_string()
                    }
                },
            },
            TOp::Exec(st) => match session.as_mut() {
                None => "nosession".into(),
                Some(s) => {
                    let r = s.execute(&hist::sql_of(st)).map_err(|e| e.to_string());
                    show_result(r, matches!(st, Stmt::Sel { .. }), &mut diag)
                }
            },
            TOp::Auto(st) => {
                let r = db.execute(&hist::sql_of(st)).map_err(|e| e.to_string());
                show_result(r, matches!(st, Stmt::Sel { .. }), &mut diag)
            }
            TOp::SubQ(t) => {
                let r = db.execute(&format!("SELECT * FROM {} WHERE k IN (SELECT k FROM {})", t, t)).map_err(|e| e.to_string());
                show_result(r, true, &mut diag)
            }
            TOp::Flush => match db.flush() {
                Ok(()) => "ok".to_string(),
                Err(e) => {
                    diag.push(e.to_string().chars().take(160).collect());
                    err_class(&e.to_string()).to_string()
                }
            },
        };
        let t1 = ticket.fetch_add(1, Ordering::SeqCst);
        let since = sh.in_call_since.swap(0, Ordering::SeqCst);
        let took = (1 + start.elapsed().as_millis() as u64).saturating_sub(since);
        if took > CALL_TIMEOUT_MS {
            diag.push(format!("slow-call {}ms", took));
        }
        sh.recs.lock().unwrap().push(CallRec { t0, t1, out, must_fail: matches!(op, TOp::SubQ(_)) });
        if !diag.is_empty() {
            sh.diag.lock().unwrap().extend(diag);
        }
    }
    // a transaction left open ends with the thread (Session::drop = rollback)
    sh.in_call_since.store(1 + start.elapsed().as_millis() as u64, Ordering::SeqCst);
    drop(session);
    sh.in_call_since.store(0, Ordering::SeqCst);
    sh.done.store(true, Ordering::SeqCst);
}

/// runs `f` on a helper thread; `None` if it does not return within the call time-out
fn with_timeout<T: Send + 'static>(f: impl FnOnce() -> T + Send + 'static) -> Option<T> {
    let (tx, rx) = std::sync::mpsc::channel();
    std::thread::spawn(move || {
        let _ = tx.send(f());
    });
    rx.recv_timeout(Duration::from_millis(CALL_TIMEOUT_MS + GRACE_MS)).ok()
}

pub fn run_case(line: &str) -> String {
    let Some(pc) = parse_case(line) else { return "bad-op".into() };
    install_hook();
    let dir = scratch_dir();
    let out = run_in(&dir, pc);
    // after a hang the stuck threads keep the database (and its files) alive; the directory is swept by a later process
    if !out.split(' ').next().unwrap_or("").contains("hang:") {
        let _ = std::fs::remove_dir_all(&dir);
    }
    out
}

fn run_in(dir: &std::path::Path, pc: ParsedCase) -> String {
    PANICS.lock().unwrap().clear();
    let _ = axmosdb::verif::sched::take_not_exclusive();
    let setup = &pc.setup;
    let cfg = DBConfig::builder().cache_size(setup.cache).pool_size(setup.pool).build();
    let db = match Database::create(dir.join("db.axm"), cfg) {
        Ok(d) => d,
        Err(e) => return format!("create-failed ## {}", e),
    };
    for t in &setup.tables {
        if let Err(e) = db.execute(&sql_create(t)) {
            return format!("bad-setup ## {}", e);
        }
    }
    // warm-up: some transaction with id > 0 has committed
    let _ = db.execute("CREATE TABLE warmupzz (k BIGINT)");
    for (t, vals) in &setup.rows {
        let s = Stmt::Ins { table: t.clone(), rows: vec![vals.clone()] };
        if let Err(e) = db.execute(&hist::sql_of(&s)) {
            return format!("bad-setup ## {}", e);
        }
    }
    for (t, n, pad) in &setup.fills {
        let padding = "x".repeat(*pad);
        let mut i = 1usize;
        while i <= *n {
            let hi = (i + 19).min(*n);
            let rows: Vec<String> = (i..=hi).map(|j| format!("({}, {}, '{}')", 1000 + j, j, padding)).collect();
            if let Err(e) = db.execute(&format!("INSERT INTO {} VALUES {}", t, rows.join(", "))) {
                return format!("bad-setup ## {}", e);
            }
            i = hi + 1;
        }
    }
    let tables: Vec<String> = setup.tables.iter().map(|t| t.name.clone()).collect();

    // yield points are perturbed only while the client threads run (not during the setup)
    let plan: Option<Arc<YieldPlan>> = if setup.yields.is_empty() {
        None
    } else {
        Some(Arc::new(YieldPlan {
            seed: setup.pace,
            sites: setup.yields.iter().map(|(t, p, m)| (*t, *p, *m, AtomicU64::new(0), AtomicU64::new(0))).collect(),
        }))
    };
    if let Some(p) = &plan {
        let p2 = p.clone();
        axmosdb::verif::sched::install(Some(Arc::new(move |tag| p2.at(tag))));
    }

    // per-thread programs
    let mut tids: Vec<usize> = pc.ops.iter().map(|(t, _)| *t).collect();
    tids.sort();
    tids.dedup();
    let db = Arc::new(db);
    let ticket = Arc::new(AtomicU64::new(1));
    let start = Instant::now();
    let barrier = Arc::new(Barrier::new(tids.len().max(1)));
    let base = Rng::new(setup.pace);
    let mut shared: Vec<(usize, Arc<ThreadShared>)> = Vec::new();
    let mut handles = Vec::new();
    for &tid in &tids {
        let ops: Vec<TOp> = pc.ops.iter().filter(|(t, _)| *t == tid).map(|(_, o)| o.clone()).collect();
        let sh = Arc::new(ThreadShared {
            in_call_since: AtomicU64::new(0),
            done: AtomicBool::new(false),
            recs: Mutex::new(Vec::new()),
            diag: Mutex::new(Vec::new()),
        });
        shared.push((tid, sh.clone()));
        let (db, ticket, barrier) = (db.clone(), ticket.clone(), barrier.clone());
        let rng = base.fork(&format!("t{}", tid));
        handles.push(std::thread::spawn(move || client(db, ops, rng, sh, ticket, start, barrier)));
    }
    // watchdog
    let mut hung: Vec<String> = Vec::new();
    loop {
        if shared.iter().all(|(_, sh)| sh.done.load(Ordering::SeqCst)) {
            break;
        }
        let now = 1 + start.elapsed().as_millis() as u64;
        for (tid, sh) in &shared {
            let since = sh.in_call_since.load(Ordering::SeqCst);
            if since != 0 && now > since + CALL_TIMEOUT_MS + GRACE_MS {
                hung.push(format!("t{}#{}", tid, sh.recs.lock().unwrap().len()));
            }
        }
        if !hung.is_empty() {
            break;
        }
        // a client thread that died (panic inside the API call on the client's own thread) never sets `done`
        if handles.iter().zip(shared.iter()).any(|(h, (_, sh))| h.is_finished() && !sh.done.load(Ordering::SeqCst)) {
            break;
        }
        std::thread::sleep(Duration::from_millis(2));
    }
    if hung.is_empty() {
        for h in handles {
            let _ = h.join();
        }
    }
    axmosdb::verif::sched::install(None);
    let mut calls: Vec<(u64, String)> = Vec::new();
    let mut diag: Vec<String> = Vec::new();
    if let Some(p) = &plan {
        diag.push(p.summary());
    }
    let mut interr = false;
    for (tid, sh) in &shared {
        for r in sh.recs.lock().unwrap().iter() {
            if (matches!(r.out.as_str(), "other" | "type" | "notfound" | "ddl") || r.out.starts_with('?')) && !(r.must_fail && r.out == "other") {
                interr = true;
            }
            calls.push((r.t0, format!("t{}:{}:{}:{}", tid, r.t0, r.t1, r.out)));
        }
        diag.extend(sh.diag.lock().unwrap().iter().cloned());
    }
    calls.sort();
    // final committed contents, read after all clients have finished; the database may be wedged, so under the watchdog too
    let mut fin: Vec<String> = Vec::new();
    if hung.is_empty() {
        for t in &tables {
            let (db2, sql) = (db.clone(), format!("SELECT * FROM {}", t));
            match with_timeout(move || db2.execute(&sql).map_err(|e| e.to_string())) {
                Some(r) => {
                    let s = show_result(r, true, &mut diag);
                    if !s.starts_with('[') {
                        interr = true;
                    }
                    fin.push(format!("{}={}", t, s));
                }
                None => {
                    hung.push(format!("final#{}", t));
                    break;
                }
            }
        }
    }
    let panics = PANICS.lock().unwrap().clone();
    // sections the code relies on being exclusive that were entered without their lock (setup included)
    let mut not_exclusive = axmosdb::verif::sched::take_not_exclusive();
    not_exclusive.dedup();
    let kind = if let Some(p) = panics.first() {
        if hung.is_empty() { format!("panic@{}", p) } else { format!("panic@{},hang:{}", p, hung.join(",")) }
    } else if !hung.is_empty() {
        format!("hang:{}", hung.join(","))
    } else if !not_exclusive.is_empty() {
        format!("protocol:{}", not_exclusive[0])
    } else if interr {
        "interr".to_string()
    } else {
        "run".to_string()
    };
    if !hung.is_empty() {
        // the stuck threads own clones of the database handle; never wait for them
        std::mem::forget(db);
        fin = vec!["-".into()];
    } else {
        drop(db);
    }
    let mut line = format!("{} {} | {}", kind, calls.into_iter().map(|c| c.1).collect::<Vec<_>>().join(" "), fin.join(" "));
    if panics.len() > 1 {
        diag.push(format!("panics={}", panics.join(",")));
    }
    if !diag.is_empty() {
        diag.truncate(6);
        line.push_str(" ## ");
        line.push_str(&diag.join(" // "));
    }
    line
}

// ------------------------------------------------------------------------------------------------ generation

const TAB3: &str = "(k:big,v:int,p:text)";

struct Gen<'a> {
    rng: &'a mut Rng,
}

impl Gen<'_> {
    /// autocommit writer on its own table `t`: inserts of fresh keys, deletes of own keys, reads of its own table
    fn writer_auto(&mut self, tid: usize, t: &str, n: usize, ops: &mut Vec<String>) {
        let mut keys: Vec<i64> = Vec::new();
        let mut next = 1i64;
        for _ in 0..n {
            let w = self.rng.below(10);
            if w < 6 || keys.is_empty() {
                let nrows = if self.rng.chance(1, 4) { 2 } else { 1 };
                let mut parts = Vec::new();
                for _ in 0..nrows {
                    let k = 100 * tid as i64 + next;
                    next += 1;
                    keys.push(k);
                    parts.push(format!("{} {} 'w'", k, self.rng.range(0, 99)));
                }
                ops.push(format!("t{} db ins {} {}", tid, t, parts.join(" , ")));
            } else if w < 8 {
                let k = keys.remove(self.rng.below(keys.len() as u64) as usize);
                ops.push(format!("t{} db del {} where k eq {}", tid, t, k));
            } else {
                ops.push(format!("t{} db sel {}", tid, t));
            }
        }
    }

    /// session writer on its own table: transactions of 1–3 statements, committed or rolled back
    fn writer_session(&mut self, tid: usize, t: &str, ntx: usize, ops: &mut Vec<String>) {
        let mut keys: Vec<i64> = Vec::new();
        let mut next = 1i64;
        for _ in 0..ntx {
            ops.push(format!("t{} begin", tid));
            let mut ins_here: Vec<i64> = Vec::new();
            let mut del_here: Vec<i64> = Vec::new();
            for _ in 0..self.rng.range(1, 3) {
                let w = self.rng.below(10);
                if w < 5 || keys.is_empty() {
                    let k = 100 * tid as i64 + next;
                    next += 1;
                    ins_here.push(k);
                    ops.push(format!("t{} ins {} {} {} 's'", tid, t, k, self.rng.range(0, 99)));
                } else if w < 7 {
                    let k = keys.remove(self.rng.below(keys.len() as u64) as usize);
                    del_here.push(k);
                    ops.push(format!("t{} del {} where k eq {}", tid, t, k));
                } else {
                    ops.push(format!("t{} sel {}", tid, t));
                }
            }
            if self.rng.chance(3, 4) {
                ops.push(format!("t{} commit", tid));
                keys.extend(ins_here);
            } else {
                ops.push(format!("t{} rollback", tid));
                keys.extend(del_here);
            }
        }
    }

    /// reader: autocommit selects and read-only sessions (two reads of the same table = repeatable-read probe)
    fn reader(&mut self, tid: usize, tables: &[String], n: usize, ops: &mut Vec<String>) {
        let mut i = 0;
        while i < n {
            let t = self.rng.pick(tables).clone();
            if self.rng.chance(1, 3) {
                ops.push(format!("t{} begin", tid));
                ops.push(format!("t{} sel {}", tid, t));
                let t2 = if self.rng.chance(1, 2) { t.clone() } else { self.rng.pick(tables).clone() };
                ops.push(format!("t{} sel {}", tid, t2));
                ops.push(format!("t{} {}", tid, if self.rng.chance(1, 2) { "commit" } else { "rollback" }));
                i += 2;
            } else {
                if self.rng.chance(1, 4) {
                    ops.push(format!("t{} db sel {} where v lt {}", tid, t, self.rng.range(10, 90)));
                } else {
                    ops.push(format!("t{} db sel {}", tid, t));
                }
                i += 1;
            }
        }
    }
}

/// interleaves the per-thread op lists into one list (order across threads is irrelevant for execution)
fn merge(rng: &mut Rng, per_thread: Vec<Vec<String>>) -> Vec<String> {
    let mut pos = vec![0usize; per_thread.len()];
    let mut out = Vec::new();
    loop {
        let live: Vec<usize> = (0..per_thread.len()).filter(|i| pos[*i] < per_thread[*i].len()).collect();
        if live.is_empty() {
            return out;
        }
        let i = *rng.pick(&live);
        out.push(per_thread[i][pos[i]].clone());
        pos[i] += 1;
    }
}

#[derive(Clone, Copy, PartialEq, Debug)]
enum Shape {
    /// 2 threads, autocommit inserts/deletes/selects, each on its own table
    AutoDistinct,
    /// 2–3 writers (autocommit or sessions) on distinct tables + 1–2 readers of static tables
    WritersReaders,
    /// session writers on distinct tables, readers (sessions with repeated reads) of static tables, 5–8 threads
    Sessions,
    /// as WritersReaders, one written and one static table preloaded to several pages (fill); cache 10000 or 32–64 pages
    Deep,
    /// readers scan the very tables that the writers write (each table still has one writer); some tables of one page,
    /// some preloaded to several pages so that scans run next to splits
    SameTableReaders,
    /// begin/commit stress: 2 session writers (6–8 short transactions, some rolled back), 2 autocommit writers that commit
    /// rapidly on tables of their own, 3–4 readers that keep selecting the session writers' tables — every read must be
    /// free of uncommitted and rolled-back rows and consistent with one order of the commits
    SnapshotRace,
    /// scans next to splits: one writer appends 100–160 rows (multi-row inserts) to a table preloaded to several pages, so
    /// that its right-most leaves split and are redistributed, while 3 readers keep scanning that table
    ScanVsSplit,
    /// row-id lease race: a table with a UNIQUE key; one thread keeps failing an INSERT of an existing key (it takes a row id and
    /// gives it back), 2–3 others insert fresh keys; delays between the row-id lease and the constraint check. Every INSERT
    /// that was acknowledged must be in the final table
    LeaseRace,
    /// statement level: 3–6 threads, each issuing autocommit SELECT / INSERT / DELETE statements on a table of its own, with
    /// delays at every yield point; judged additionally against each thread's statements run ALONE (non-interference)
    DisjointAuto,
    /// first split: a table that fills most of ONE page is scanned by 3 readers while a writer appends rows until the root
    /// splits; delays between page fetch and latch widen the gap between a scan's descent and the start of its iteration
    FirstSplit,
    /// SnapshotRace with delays at the yield points after the snapshot and around commit
    YieldSnapshot,
    /// ScanVsSplit with delays between page fetch and latch, between leaves of a scan and between the tree operations of a statement
    YieldTree,
    /// a table with a UNIQUE index: 2 writers (distinct keys), 2 readers (point lookups by key and scans), delays between the
    /// table-tree, index-tree and catalog-tree updates of each insert
    YieldIndex,
    /// several writers insert into / delete from the SAME table (no serial order is demanded: snapshot isolation admits write skew)
    SameTableWriters,
    /// as Deep with a cache of 12–20 pages, below the working set: frames are evicted while other threads pin pages
    SmallCache,
    /// as WritersReaders plus a thread that calls Database::flush (region `flush_concurrent`)
    FlushConcurrent,
    /// as WritersReaders plus `db subq` statements, at least as many as pool workers (region `panic_stmt`)
    SubQ,
}

fn gen_snapshot_race(rng: &mut Rng) -> Case {
    let mut per_thread: Vec<Vec<String>> = Vec::new();
    for (t, tab) in [(1usize, "s1"), (2, "s2")] {
        let mut l = Vec::new();
        let mut k = 0;
        for _ in 0..rng.range(6, 8) {
            l.push(format!("t{} begin", t));
            for _ in 0..1 {
                k += 1;
                l.push(format!("t{} ins {} {} {} 's'", t, tab, 100 * t + k, k));
            }
            l.push(format!("t{} {}", t, if rng.chance(7, 10) { "commit" } else { "rollback" }));
        }
        per_thread.push(l);
    }
    for (t, tab) in [(3usize, "a1"), (4, "a2")] {
        per_thread.push((0..rng.range(16, 20)).map(|i| format!("t{} db ins {} {} {} 'w'", t, tab, 100 * t as i64 + i, i)).collect());
    }
    let nreaders = rng.range(3, 4) as usize;
    for t in 5..5 + nreaders {
        per_thread.push((0..rng.range(16, 20)).map(|_| format!("t{} db sel {}", t, if rng.chance(1, 2) { "s1" } else { "s2" })).collect());
    }
    let nthreads = per_thread.len();
    let ops = merge(rng, per_thread);
    let tabs: Vec<String> = ["s1", "s2", "a1", "a2"].iter().map(|n| format!("tab={}{}", n, TAB3)).collect();
    let line = format!("threads {} cache=10000 pool=8 pace={} | {}", tabs.join(" "), rng.below(1_000_000_000), ops.join(" ; "));
    let tags = ["nt", "shape:SnapshotRace", "session", "auto_ins", "auto_sel", "rollback", "scan_vs_write", "clean"];
    let mut c = Case::new(line, &tags);
    c.tags.push(format!("threads{}", nthreads));
    c
}

fn gen_scan_vs_split(rng: &mut Rng) -> Case {
    let mut per_thread: Vec<Vec<String>> = Vec::new();
    let pad = "y".repeat(40);
    let mut k = 100;
    let mut w = Vec::new();
    for _ in 0..rng.range(6, 8) {
        let rows: Vec<String> = (0..rng.range(16, 20))
            .map(|_| {
                k += 1;
                format!("{} {} '{}'", k, rng.range(0, 99), pad)
            })
            .collect();
        w.push(format!("t1 db ins w1 {}", rows.join(" , ")));
    }
    per_thread.push(w);
    for t in 2..=4 {
        let mut l = Vec::new();
        for _ in 0..rng.range(8, 12) {
            if rng.chance(1, 4) {
                l.push(format!("t{} begin", t));
                l.push(format!("t{} sel w1 where k lt 1000", t));
                l.push(format!("t{} sel w1 where k lt 1000", t));
                l.push(format!("t{} commit", t));
            } else {
                l.push(format!("t{} db sel w1 where k lt 1000", t));
            }
        }
        per_thread.push(l);
    }
    let ops = merge(rng, per_thread);
    let line = format!(
        "threads tab=w1{} fill=w1:{}:{} cache=10000 pool=8 pace={} | {}",
        TAB3,
        rng.range(100, 160),
        rng.range(60, 100),
        rng.below(1_000_000_000),
        ops.join(" ; ")
    );
    Case::new(line, &["nt", "shape:ScanVsSplit", "threads4", "deep_tree", "session", "auto_ins", "auto_sel", "scan_vs_write", "clean"])
}

fn with_yields(mut c: Case, yields: &[(&str, u64, u64)], shape: &str) -> Case {
    let words: Vec<String> = yields.iter().map(|(t, p, m)| format!("yield={}:{}:{}", t, p, m)).collect();
    c.line = c.line.replacen(" cache=", &format!(" {} cache=", words.join(" ")), 1);
    for t in c.tags.iter_mut() {
        if t.starts_with("shape:") {
            *t = format!("shape:{}", shape);
        }
    }
    for (t, _, _) in yields {
        c.tags.push(format!("yield:{}", t));
    }
    c
}

fn gen_disjoint_auto(rng: &mut Rng) -> Case {
    let n = rng.range(3, 6) as usize;
    let mut g = Gen { rng };
    let mut setup: Vec<String> = Vec::new();
    let mut per_thread: Vec<Vec<String>> = Vec::new();
    for i in 1..=n {
        let name = format!("w{}", i);
        setup.push(format!("tab={}{}", name, TAB3));
        if i <= 2 && g.rng.chance(1, 2) {
            setup.push(format!("fill={}:{}:{}", name, g.rng.range(40, 120), g.rng.range(40, 100)));
        } else {
            for k in 1..=g.rng.range(0, 3) {
                setup.push(format!("row={}:{},{},'i'", name, k, 10 * k));
            }
        }
        let mut ops = Vec::new();
        let cnt = g.rng.range(5, 10) as usize;
        g.writer_auto(i, &name, cnt, &mut ops);
        per_thread.push(ops);
    }
    let ops = merge(g.rng, per_thread);
    let line = format!(
        "threads {} cache=10000 pool={} pace={} | {}",
        setup.join(" "),
        g.rng.range(2, 8),
        g.rng.below(1_000_000_000),
        ops.join(" ; ")
    );
    let mut c = Case::new(line, &["nt", "shape:DisjointAuto", "auto_ins", "auto_del", "auto_sel", "statement_level", "clean"]);
    c.tags.push(format!("threads{}", n));
    with_yields(
        c,
        &[("snapshot_taken", 200, 400), ("commit_logged", 200, 400), ("committed", 200, 400), ("page_fetched", 50, 200), ("tree_write", 200, 400)],
        "DisjointAuto",
    )
}

fn gen_lease_race(rng: &mut Rng) -> Case {
    let mut per_thread: Vec<Vec<String>> = Vec::new();
    per_thread.push((0..rng.range(10, 16)).map(|_| format!("t1 db ins u {} 0 'd'", rng.range(1, 2))).collect());
    let nw = rng.range(2, 3) as usize;
    for t in 2..2 + nw {
        per_thread.push((1..=rng.range(8, 12)).map(|i| format!("t{} db ins u {} {} 'w'", t, 100 * t as i64 + i, i)).collect());
    }
    let nthreads = per_thread.len();
    let ops = merge(rng, per_thread);
    let line = format!(
        "threads tab=u(k:big*,v:int,p:text) row=u:1,10,'i' row=u:2,20,'i' cache=10000 pool={} pace={} | {}",
        rng.range(4, 8),
        rng.below(1_000_000_000),
        ops.join(" ; ")
    );
    let mut c = Case::new(line, &["nt", "shape:LeaseRace", "unique_index", "auto_ins", "failing_insert", "same_table_writers", "clean"]);
    c.tags.push(format!("threads{}", nthreads));
    with_yields(c, &[("row_id_leased", 500, 600)], "LeaseRace")
}

fn gen_first_split(rng: &mut Rng) -> Case {
    let mut per_thread: Vec<Vec<String>> = Vec::new();
    let pad = "y".repeat(40);
    let mut k = 100;
    let mut w = Vec::new();
    for _ in 0..rng.range(5, 7) {
        let rows: Vec<String> = (0..rng.range(3, 5))
            .map(|_| {
                k += 1;
                format!("{} {} '{}'", k, rng.range(0, 99), pad)
            })
            .collect();
        w.push(format!("t1 db ins a {}", rows.join(" , ")));
    }
    per_thread.push(w);
    for t in 2..=4 {
        per_thread.push((0..rng.range(8, 12)).map(|_| format!("t{} db sel a where k lt 1000", t)).collect());
    }
    let ops = merge(rng, per_thread);
    let line = format!(
        "threads tab=a{} fill=a:{}:{} cache=10000 pool=6 pace={} | {}",
        TAB3,
        rng.range(14, 24),
        rng.range(60, 100),
        rng.below(1_000_000_000),
        ops.join(" ; ")
    );
    let c = Case::new(line, &["nt", "shape:FirstSplit", "threads4", "auto_ins", "auto_sel", "scan_vs_write", "clean"]);
    with_yields(c, &[("page_fetched", 300, 400)], "FirstSplit")
}

fn gen_yield_index(rng: &mut Rng) -> Case {
    let mut per_thread: Vec<Vec<String>> = Vec::new();
    let n_init = rng.range(3, 8);
    for t in 1..=2usize {
        let mut l = Vec::new();
        let mut keys: Vec<i64> = Vec::new();
        let mut next = 1;
        let session = rng.chance(1, 2);
        for _ in 0..rng.range(3, 5) {
            if session {
                l.push(format!("t{} begin", t));
            }
            for _ in 0..rng.range(1, 3) {
                if keys.is_empty() || rng.chance(3, 4) {
                    let k = 100 * t as i64 + next;
                    next += 1;
                    keys.push(k);
                    l.push(format!("t{} {}ins u {} {} 'w'", t, if session { "" } else { "db " }, k, rng.range(0, 99)));
                } else {
                    let k = keys.remove(rng.below(keys.len() as u64) as usize);
                    l.push(format!("t{} {}del u where k eq {}", t, if session { "" } else { "db " }, k));
                }
            }
            if session {
                l.push(format!("t{} commit", t));
            }
        }
        per_thread.push(l);
    }
    for t in 3..=4usize {
        let mut l = Vec::new();
        for _ in 0..rng.range(6, 10) {
            if rng.chance(1, 2) {
                l.push(format!("t{} db sel u where k eq {}", t, rng.range(1, n_init)));
            } else if rng.chance(1, 2) {
                l.push(format!("t{} db sel u where k eq {}", t, 100 * rng.range(1, 2) + rng.range(1, 4)));
            } else {
                l.push(format!("t{} db sel u", t));
            }
        }
        per_thread.push(l);
    }
    let ops = merge(rng, per_thread);
    let rows: Vec<String> = (1..=n_init).map(|k| format!("row=u:{},{},'i'", k, 10 * k)).collect();
    let line = format!(
        "threads tab=u(k:big*,v:int,p:text) {} cache=10000 pool={} pace={} | {}",
        rows.join(" "),
        rng.range(3, 8),
        rng.below(1_000_000_000),
        ops.join(" ; ")
    );
    let c = Case::new(line, &["nt", "shape:YieldIndex", "threads4", "unique_index", "auto_ins", "auto_sel", "scan_vs_write", "clean"]);
    with_yields(c, &[("tree_write", 500, 800), ("page_fetched", 100, 200)], "YieldIndex")
}

fn gen_case(rng: &mut Rng, shape: Shape, small_cache: bool) -> Case {
    match shape {
        Shape::YieldSnapshot => {
            let c = gen_snapshot_race(rng);
            return with_yields(
                c,
                &[("begin_snapshot", 300, 600), ("snapshot_taken", 400, 1500), ("commit_logged", 300, 800), ("committed", 300, 800)],
                "YieldSnapshot",
            );
        }
        Shape::YieldTree => {
            let c = gen_scan_vs_split(rng);
            return with_yields(c, &[("page_fetched", 100, 200), ("leaf_released", 400, 400), ("tree_write", 300, 500)], "YieldTree");
        }
        Shape::YieldIndex => return gen_yield_index(rng),
        Shape::FirstSplit => return gen_first_split(rng),
        Shape::DisjointAuto => return gen_disjoint_auto(rng),
        Shape::LeaseRace => return gen_lease_race(rng),
        _ => {}
    }
    if shape == Shape::SnapshotRace {
        return gen_snapshot_race(rng);
    }
    if shape == Shape::ScanVsSplit {
        return gen_scan_vs_split(rng);
    }
    let mut g = Gen { rng };
    let (nw, nr) = match shape {
        Shape::AutoDistinct => (2usize, 0usize),
        Shape::WritersReaders => (g.rng.range(2, 3) as usize, g.rng.range(1, 2) as usize),
        Shape::Sessions => (g.rng.range(3, 5) as usize, g.rng.range(2, 3) as usize),
        Shape::Deep => (g.rng.range(2, 3) as usize, g.rng.range(1, 2) as usize),
        Shape::SameTableReaders => (g.rng.range(1, 3) as usize, g.rng.range(1, 3) as usize),
        Shape::SameTableWriters => (g.rng.range(2, 4) as usize, g.rng.range(0, 1) as usize),
        Shape::SnapshotRace | Shape::ScanVsSplit | Shape::YieldSnapshot | Shape::YieldTree | Shape::YieldIndex | Shape::FirstSplit | Shape::DisjointAuto | Shape::LeaseRace => unreachable!(),
        Shape::SmallCache => (g.rng.range(2, 3) as usize, g.rng.range(1, 2) as usize),
        Shape::FlushConcurrent | Shape::SubQ => (g.rng.range(2, 3) as usize, 1usize),
    };
    let deep = matches!(shape, Shape::Deep | Shape::SmallCache);
    let mut setup: Vec<String> = Vec::new();
    let mut wtables: Vec<String> = Vec::new();
    for i in 1..=nw {
        let name = if shape == Shape::SameTableWriters { "w1".to_string() } else { format!("w{}", i) };
        if !wtables.contains(&name) {
            setup.push(format!("tab={}{}", name, TAB3));
            // at most two filled tables per case: every inserted row adds a version to its table's catalog row, and a
            // catalog tree with more than three such big rows splits into big cells (the C10 finding KF-C10-divider-full-copy)
            if (deep && i == 1)
                || (shape == Shape::SameTableReaders && i == 1 && g.rng.chance(1, 2))
                || (!deep && shape != Shape::AutoDistinct && shape != Shape::SameTableReaders && i == 1 && g.rng.chance(1, 4))
            {
                setup.push(format!("fill={}:{}:{}", name, g.rng.range(60, 160), g.rng.range(40, 100)));
            } else {
                for k in 1..=g.rng.range(0, 3) {
                    setup.push(format!("row={}:{},{},'i'", name, k, 10 * k));
                }
            }
        }
        wtables.push(name);
    }
    // static tables for the readers of the clean region
    let mut rtables: Vec<String> = Vec::new();
    if nr > 0 {
        for i in 1..=2 {
            let name = format!("r{}", i);
            setup.push(format!("tab={}{}", name, TAB3));
            if deep && i == 1 {
                setup.push(format!("fill={}:{}:{}", name, g.rng.range(60, 160), g.rng.range(40, 100)));
            } else {
                for k in 1..=g.rng.range(1, 4) {
                    setup.push(format!("row={}:{},{},'i'", name, k, 10 * k));
                }
            }
            rtables.push(name);
        }
    }
    let cache = if shape == Shape::SmallCache {
        g.rng.range(12, 20)
    } else if small_cache {
        g.rng.range(32, 64)
    } else {
        10000
    };
    setup.push(format!("cache={}", cache));
    let pool = if shape == Shape::SubQ { g.rng.range(2, 3) } else { g.rng.range(2, 8) };
    setup.push(format!("pool={}", pool));
    setup.push(format!("pace={}", g.rng.below(1_000_000_000)));
    let mut per_thread: Vec<Vec<String>> = Vec::new();
    let mut tid = 0usize;
    for i in 0..nw {
        tid += 1;
        let mut ops = Vec::new();
        let session = match shape {
            Shape::AutoDistinct => false,
            Shape::Sessions => true,
            _ => g.rng.chance(1, 2),
        };
        if session {
            let ntx = g.rng.range(2, 4) as usize;
            g.writer_session(tid, &wtables[i], ntx, &mut ops);
        } else {
            let n = g.rng.range(4, 9) as usize;
            g.writer_auto(tid, &wtables[i], n, &mut ops);
        }
        per_thread.push(ops);
    }
    for _ in 0..nr {
        tid += 1;
        let mut ops = Vec::new();
        let tabs = if shape == Shape::SameTableReaders { wtables.clone() } else { rtables.clone() };
        let n = g.rng.range(3, 7) as usize;
        g.reader(tid, &tabs, n, &mut ops);
        per_thread.push(ops);
    }
    if shape == Shape::FlushConcurrent {
        tid += 1;
        per_thread.push((0..g.rng.range(2, 4)).map(|_| format!("t{} flush", tid)).collect());
    }
    if shape == Shape::SubQ {
        // at least as many failing statements as pool workers, issued by two threads; afterwards ordinary statements
        let mut left = pool + g.rng.range(0, 1);
        for _ in 0..2 {
            tid += 1;
            let mut ops = Vec::new();
            let n = (left + 1) / 2;
            for _ in 0..n.min(left) {
                ops.push(format!("t{} db subq {}", tid, rtables[0]));
            }
            left -= n.min(left);
            ops.push(format!("t{} db sel {}", tid, rtables[0]));
            ops.push(format!("t{} db sel {}", tid, rtables[1]));
            per_thread.push(ops);
        }
    }
    let nthreads = per_thread.len();
    let ops = merge(g.rng, per_thread);
    let line = format!("threads {} | {}", setup.join(" "), ops.join(" ; "));
    let mut tags: Vec<String> = vec!["nt".into(), format!("threads{}", nthreads), format!("shape:{:?}", shape)];
    if small_cache && shape != Shape::SmallCache {
        tags.push("modest_cache".into());
    }
    if line.contains("fill=") {
        tags.push("deep_tree".into());
    }
    for (w, t) in [(" begin", "session"), (" db ins", "auto_ins"), (" db del", "auto_del"), (" db sel", "auto_sel"), (" rollback", "rollback")] {
        if line.contains(w) {
            tags.push(t.into());
        }
    }
    match shape {
        Shape::SameTableReaders => {
            tags.push("scan_vs_write".into());
            tags.push("clean".into());
        }
        Shape::SameTableWriters => {
            tags.push("same_table_writers".into());
            tags.push("clean".into());
        }
        Shape::SmallCache => {
            tags.push("small_cache".into());
            tags.push("clean".into());
        }
        Shape::FlushConcurrent => tags.push("flush_concurrent".into()),
        Shape::SubQ => tags.push("panic_stmt".into()),
        _ => tags.push("clean".into()),
    }
    Case { line, tags }
}

impl Engine for ThreadsEngine {
    fn gen_cases(&self, rng: &mut Rng, tier: Tier) -> Vec<Case> {
        let mut out = Vec::new();
        let quick = tier == Tier::Quick;
        let clean = [
            Shape::AutoDistinct,
            Shape::WritersReaders,
            Shape::Sessions,
            Shape::Deep,
            Shape::SameTableReaders,
            Shape::SnapshotRace,
            Shape::ScanVsSplit,
            Shape::SmallCache,
            Shape::SameTableWriters,
            Shape::YieldSnapshot,
            Shape::YieldTree,
            Shape::YieldIndex,
            Shape::FirstSplit,
            Shape::DisjointAuto,
            Shape::LeaseRace,
        ];
        // cases of the two known-finding regions are spread among the clean ones (a hang costs its supervisor slot 10 s)
        let regions = [Shape::FlushConcurrent, Shape::SubQ];
        let rounds = if quick { 40 } else { 600 };
        for r in 0..rounds {
            for s in clean {
                let small = s == Shape::Deep && rng.chance(1, 2);
                out.push(gen_case(rng, s, small));
            }
            // quick: 14 region cases in ~330 (4 %); thorough: 400 in ~5200 (8 %)
            let every = if quick { 3 } else { 3 };
            if r % every == 0 {
                let s = regions[(r / every) % regions.len()];
                out.push(gen_case(rng, s, false));
                if !quick {
                    out.push(gen_case(rng, regions[(r / every + 2) % regions.len()], false));
                }
            }
        }
        out
    }
    fn exec(&mut self, line: &str) -> String {
        run_case(line)
    }
    /// backstop only: the engine's own watchdog answers `hang:…` after 10 s per call
    fn timeout_ms(&self) -> u64 {
        180_000
    }
}
