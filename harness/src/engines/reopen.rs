//! Engine `reopen` (C09): histories through the public API (`Database`, `Session`) cut at arbitrary points by a clean
//! close (`drop(db)` or `flush()` + drop) and `Database::open` with another configuration, against the logical MVCC
//! model `Model/Db.lean` extended by `Model/Reopen.lean` (catalog with DDL, persistent counters, aborted set, close/open).
//! Case syntax: see `cfg/C09.py`.
use super::{Case, Engine, Tier};
use crate::rng::Rng;
use axmosdb::runtime::ddl::DdlResult;
use axmosdb::runtime::QueryResult;
use axmosdb::tcp::session::Session;
use axmosdb::{DBConfig, DataType, Database};
use std::collections::BTreeMap;
use std::sync::atomic::{AtomicU64, Ordering};

pub struct ReopenEngine;

// ------------------------------------------------------------------------------------------------ case syntax

#[derive(Clone, Debug, PartialEq)]
pub enum Val {
    Int(i64),
    Null,
    Text(String),
    /// `^ab1500`: the unit repeated n times (a value far larger than a page)
    Rep(String, usize),
}

#[derive(Clone, Debug)]
pub struct Col {
    pub name: String,
    pub ty: String, // big | int | text
    pub not_null: bool,
    pub unique: bool,
}

#[derive(Clone, Debug)]
pub struct Table {
    pub name: String,
    pub cols: Vec<Col>,
}

#[derive(Clone, Debug)]
pub struct Pred {
    pub col: String,
    pub op: String, // eq ne lt le gt ge
    pub val: Val,
}

#[derive(Clone, Debug)]
pub enum Stmt {
    Sel { table: String, pred: Option<Pred> },
    Ins { table: String, rows: Vec<Vec<Val>> },
    Upd { table: String, col: String, add: bool, val: Val, pred: Option<Pred> },
    Del { table: String, pred: Option<Pred> },
}

#[derive(Clone, Debug)]
pub enum Op {
    Begin(String),
    Commit(String),
    Rollback(String),
    Drop(String),
    Exec(String, Stmt),
    Auto(Stmt),
    Batch(Vec<Stmt>),
    Create(Table),
    DropTable(String),
    Vacuum,
    /// n empty transactions (session begin + commit)
    Burn(u64),
    /// one empty committed transaction; prints its id
    Tid,
    /// close (`flush` = explicit flush before the drop) and open with (page_size, cache, pool)
    Reopen { how: How, cfg: Cfg },
}

/// how the database is closed: `drop(db)`; `flush()` then drop; `flush()` and then everything (sessions still open,
/// the handle) is leaked as if the process had ended without running destructors
#[derive(Clone, Copy, Debug, PartialEq)]
pub enum How {
    Drop,
    Flush,
    Leak,
}

/// the five fields of `DBConfig`
#[derive(Clone, Copy, Debug, PartialEq)]
pub struct Cfg {
    pub page_size: usize,
    pub cache: usize,
    pub pool: usize,
    pub min_keys: usize,
    pub siblings: usize,
}

#[derive(Clone, Debug)]
pub struct Head {
    pub cfg: Cfg,
}

fn parse_val(s: &str) -> Option<Val> {
    if s == "null" {
        return Some(Val::Null);
    }
    if let Some(r) = s.strip_prefix('^') {
        let unit: String = r.chars().take_while(|c| c.is_ascii_lowercase()).collect();
        let num = &r[unit.len()..];
        if unit.is_empty() || num.is_empty() {
            return None;
        }
        let n: usize = num.parse().ok()?;
        if n.to_string() != num || n == 0 || n > 100_000 {
            return None;
        }
        return Some(Val::Rep(unit, n));
    }
    if s.len() >= 2 && s.starts_with('\'') && s.ends_with('\'') {
        let body = &s[1..s.len() - 1];
        if body.chars().all(|c| c.is_ascii_lowercase()) {
            return Some(Val::Text(body.to_string()));
        }
        return None;
    }
    let n: i64 = s.parse().ok()?;
    if n.to_string() != s || n.abs() > 1_000_000_000 {
        return None;
    }
    Some(Val::Int(n))
}

fn ident(s: &str) -> bool {
    !s.is_empty() && s.chars().all(|c| c.is_ascii_lowercase() || c.is_ascii_digit()) && s.chars().next().unwrap().is_ascii_lowercase()
}

fn parse_table(spec: &str) -> Option<Table> {
    let (name, rest) = spec.split_once('(')?;
    let rest = rest.strip_suffix(')')?;
    if !ident(name) {
        return None;
    }
    let mut cols = Vec::new();
    for c in rest.split(',') {
        let (cn, ty) = c.split_once(':')?;
        let mut ty = ty.to_string();
        let mut not_null = false;
        let mut unique = false;
        loop {
            if let Some(t) = ty.strip_suffix('!') {
                not_null = true;
                ty = t.to_string();
            } else if let Some(t) = ty.strip_suffix('*') {
                unique = true;
                ty = t.to_string();
            } else {
                break;
            }
        }
        if !ident(cn) || !matches!(ty.as_str(), "big" | "int" | "text") {
            return None;
        }
        cols.push(Col { name: cn.to_string(), ty, not_null, unique });
    }
    if cols.is_empty() {
        return None;
    }
    Some(Table { name: name.to_string(), cols })
}

fn parse_pred(ws: &[&str]) -> Option<Option<Pred>> {
    match ws {
        [] => Some(None),
        ["where", col, op, val] => {
            if !ident(col) || !matches!(*op, "eq" | "ne" | "lt" | "le" | "gt" | "ge") {
                return None;
            }
            Some(Some(Pred { col: col.to_string(), op: op.to_string(), val: parse_val(val)? }))
        }
        _ => None,
    }
}

fn parse_stmt(ws: &[&str]) -> Option<Stmt> {
    match ws {
        ["sel", t, rest @ ..] if ident(t) => Some(Stmt::Sel { table: t.to_string(), pred: parse_pred(rest)? }),
        ["del", t, rest @ ..] if ident(t) => Some(Stmt::Del { table: t.to_string(), pred: parse_pred(rest)? }),
        ["upd", t, col, how, val, rest @ ..] if ident(t) && ident(col) && (*how == "set" || *how == "add") => Some(Stmt::Upd {
            table: t.to_string(),
            col: col.to_string(),
            add: *how == "add",
            val: parse_val(val)?,
            pred: parse_pred(rest)?,
        }),
        ["ins", t, rest @ ..] if ident(t) && !rest.is_empty() => {
            let mut rows = Vec::new();
            for r in rest.split(|w| *w == ",") {
                if r.is_empty() {
                    return None;
                }
                let vals: Option<Vec<Val>> = r.iter().map(|v| parse_val(v)).collect();
                rows.push(vals?);
            }
            Some(Stmt::Ins { table: t.to_string(), rows })
        }
        _ => None,
    }
}

fn sess_name(s: &str) -> bool {
    s.len() >= 2 && s.starts_with('s') && s[1..].chars().all(|c| c.is_ascii_digit())
}

fn canon_usize(s: &str, max: usize) -> Option<usize> {
    let n: usize = s.parse().ok()?;
    if n.to_string() != s || n > max {
        return None;
    }
    Some(n)
}

fn page_size_ok(n: usize) -> bool {
    matches!(n, 4096 | 8192 | 16384 | 32768 | 65536)
}

fn parse_op(s: &str) -> Option<Op> {
    let ws: Vec<&str> = s.split_whitespace().collect();
    match ws.as_slice() {
        ["db", "batch", rest @ ..] => {
            let mut stmts = Vec::new();
            for part in rest.split(|w| *w == "&") {
                stmts.push(parse_stmt(part)?);
            }
            Some(Op::Batch(stmts))
        }
        ["db", rest @ ..] => Some(Op::Auto(parse_stmt(rest)?)),
        ["create", spec] => Some(Op::Create(parse_table(spec)?)),
        ["droptable", t] if ident(t) => Some(Op::DropTable(t.to_string())),
        ["vacuum"] => Some(Op::Vacuum),
        ["tid"] => Some(Op::Tid),
        ["burn", n] => {
            let n = canon_usize(n, 20_000)?;
            if n == 0 {
                return None;
            }
            Some(Op::Burn(n as u64))
        }
        ["reopen", how, ps, cache, pool, mk, sib] if matches!(*how, "drop" | "flush" | "leak") => {
            let cfg = parse_cfg(ps, cache, pool, mk, sib)?;
            let how = match *how {
                "drop" => How::Drop,
                "flush" => How::Flush,
                _ => How::Leak,
            };
            Some(Op::Reopen { how, cfg })
        }
        [s, "begin"] if sess_name(s) => Some(Op::Begin(s.to_string())),
        [s, "commit"] if sess_name(s) => Some(Op::Commit(s.to_string())),
        [s, "rollback"] if sess_name(s) => Some(Op::Rollback(s.to_string())),
        [s, "drop"] if sess_name(s) => Some(Op::Drop(s.to_string())),
        [s, rest @ ..] if sess_name(s) => Some(Op::Exec(s.to_string(), parse_stmt(rest)?)),
        _ => None,
    }
}

/// page size ∈ {4,8,16,32,64} KiB, 16 ≤ cache ≤ 1000000, 1 ≤ pool ≤ 16, 3 ≤ min keys ≤ 8 (`Btree::new` asserts ≥ 3), 1 ≤ siblings ≤ 4
fn parse_cfg(ps: &str, cache: &str, pool: &str, mk: &str, sib: &str) -> Option<Cfg> {
    let c = Cfg {
        page_size: canon_usize(ps, 65536)?,
        cache: canon_usize(cache, 1_000_000)?,
        pool: canon_usize(pool, 16)?,
        min_keys: canon_usize(mk, 8)?,
        siblings: canon_usize(sib, 4)?,
    };
    if !page_size_ok(c.page_size) || c.cache < 16 || c.pool == 0 || c.min_keys < 3 || c.siblings == 0 {
        return None;
    }
    Some(c)
}

/// `<page_size> <cache> <pool> <min_keys> <siblings>`: the configuration the database is created with
fn parse_head(s: &str) -> Option<Head> {
    let ws: Vec<&str> = s.split_whitespace().collect();
    match ws.as_slice() {
        [ps, cache, pool, mk, sib] => Some(Head { cfg: parse_cfg(ps, cache, pool, mk, sib)? }),
        _ => None,
    }
}

/// Well-formedness beyond the grammar, decided on the op list alone (the Lean driver applies the same rule):
/// DDL is issued only while no session is open (`reopen` and `vacuum` end every session).
fn well_formed(ops: &[Op]) -> bool {
    let mut open: Vec<&str> = Vec::new();
    for op in ops {
        match op {
            Op::Begin(s) => {
                if !open.contains(&s.as_str()) {
                    open.push(s);
                }
            }
            Op::Commit(s) | Op::Rollback(s) | Op::Drop(s) => open.retain(|x| x != s),
            Op::Create(_) | Op::DropTable(_) => {
                if !open.is_empty() {
                    return false;
                }
            }
            // VACUUM rolls back every open transaction: like `reopen` it ends every session
            Op::Vacuum | Op::Reopen { .. } => open.clear(),
            _ => {}
        }
    }
    true
}

pub fn parse_case(line: &str) -> Option<(Head, Vec<Op>)> {
    let body = line.trim().strip_prefix("reopen ")?;
    let (head, ops) = body.split_once('|')?;
    let head = parse_head(head)?;
    let mut out = Vec::new();
    let ops = ops.trim();
    if !ops.is_empty() {
        for o in ops.split(" ; ") {
            out.push(parse_op(o)?);
        }
    }
    if !well_formed(&out) {
        return None;
    }
    Some((head, out))
}

// ------------------------------------------------------------------------------------------------ SQL text

fn text_of(v: &Val) -> Option<String> {
    match v {
        Val::Text(s) => Some(s.clone()),
        Val::Rep(u, n) => Some(u.repeat(*n)),
        _ => None,
    }
}

fn sql_val(v: &Val) -> String {
    match v {
        Val::Int(n) => n.to_string(),
        Val::Null => "NULL".into(),
        other => format!("'{}'", text_of(other).unwrap()),
    }
}

fn sql_pred(p: &Option<Pred>) -> String {
    match p {
        None => String::new(),
        Some(p) => {
            let op = match p.op.as_str() {
                "eq" => "=",
                "ne" => "<>",
                "lt" => "<",
                "le" => "<=",
                "gt" => ">",
                _ => ">=",
            };
            format!(" WHERE {} {} {}", p.col, op, sql_val(&p.val))
        }
    }
}

pub fn sql_of(s: &Stmt) -> String {
    match s {
        Stmt::Sel { table, pred } => format!("SELECT * FROM {}{}", table, sql_pred(pred)),
        Stmt::Del { table, pred } => format!("DELETE FROM {}{}", table, sql_pred(pred)),
        Stmt::Upd { table, col, add, val, pred } => {
            if *add {
                format!("UPDATE {} SET {} = {} + {}{}", table, col, col, sql_val(val), sql_pred(pred))
            } else {
                format!("UPDATE {} SET {} = {}{}", table, col, sql_val(val), sql_pred(pred))
            }
        }
        Stmt::Ins { table, rows } => {
            let rs: Vec<String> =
                rows.iter().map(|r| format!("({})", r.iter().map(sql_val).collect::<Vec<_>>().join(", "))).collect();
            format!("INSERT INTO {} VALUES {}", table, rs.join(", "))
        }
    }
}

fn sql_create(t: &Table) -> String {
    let mut cols: Vec<String> = Vec::new();
    let mut uniq: Vec<String> = Vec::new();
    for c in &t.cols {
        let ty = match c.ty.as_str() {
            "big" => "BIGINT",
            "int" => "INT",
            _ => "TEXT",
        };
        cols.push(format!("{} {}{}", c.name, ty, if c.not_null { " NOT NULL" } else { "" }));
        if c.unique {
            uniq.push(format!("UNIQUE({})", c.name));
        }
    }
    cols.extend(uniq);
    format!("CREATE TABLE {} ({})", t.name, cols.join(", "))
}

// ------------------------------------------------------------------------------------------------ execution

fn err_class(msg: &str) -> &'static str {
    let m = msg.to_ascii_lowercase();
    if m.contains("conflict") {
        "conflict"
    } else if m.contains("constraint validation error") || m.contains("unique") || m.contains("not null") || m.contains("null constraint") {
        "constraint"
    } else if m.contains("not found") || m.contains("does not exist") || m.contains("notfound") || m.contains("invalid object name") {
        "notfound"
    } else if m.contains("already exists") {
        "exists"
    } else if m.contains("type error") || m.contains("cast") || m.contains("type mismatch") || m.contains("datatype") {
        "type"
    } else {
        "other"
    }
}

/// FNV-1a, 32 bit, over the bytes of a long text (the Lean driver computes the same)
fn fnv32(s: &[u8]) -> u32 {
    let mut h: u32 = 0x811c9dc5;
    for b in s {
        h ^= *b as u32;
        h = h.wrapping_mul(0x01000193);
    }
    h
}

fn show_text(b: &[u8]) -> String {
    if b.len() > 40 {
        format!("~{}:{}", b.len(), fnv32(b))
    } else {
        format!("'{}'", String::from_utf8_lossy(b))
    }
}

fn show_dt(d: &DataType) -> String {
    match d {
        DataType::Null => "null".into(),
        DataType::Int(v) => v.value().to_string(),
        DataType::BigInt(v) => v.value().to_string(),
        DataType::UInt(v) => v.value().to_string(),
        DataType::BigUInt(v) => v.value().to_string(),
        DataType::Blob(b) => show_text(b.data().unwrap_or(&[])),
        other => format!("?{:?}", other),
    }
}

fn show_result(r: Result<QueryResult, String>, is_read: bool, diag: &mut Vec<String>) -> String {
    match r {
        Ok(QueryResult::Rows(rows)) => {
            let mut out: Vec<String> =
                rows.iterrows().map(|r| r.iter().map(show_dt).collect::<Vec<_>>().join(",")).collect();
            out.sort();
            format!("[{}]", out.join(";"))
        }
        Ok(QueryResult::RowsAffected(n)) => {
            if is_read { format!("?affected{}", n) } else { format!("ok{}", n) }
        }
        Ok(QueryResult::Ddl(d)) => match d {
            DdlResult::TableCreated { object_id, .. } => format!("ddl@{}", object_id),
            _ => "ddl".into(),
        },
        Err(e) => {
            diag.push(e.chars().filter(|c| *c != '\n').take(100).collect());
            err_class(&e).to_string()
        }
    }
}

static COUNTER: AtomicU64 = AtomicU64::new(0);

pub fn run_case(line: &str) -> String {
    let Some((head, ops)) = parse_case(line) else { return "bad-op".into() };
    let dir = std::env::temp_dir().join(format!("axv-reopen-{}-{}", std::process::id(), COUNTER.fetch_add(1, Ordering::SeqCst)));
    let _ = std::fs::remove_dir_all(&dir);
    std::fs::create_dir_all(&dir).unwrap();
    let out = run_in(&dir, &head, &ops);
    let _ = std::fs::remove_dir_all(&dir);
    out
}

/// the observation made after every open and at the end of the case: contents (with the hidden row id) of every table
/// that should exist, name resolution of every name that should not
fn observe(db: &Database, live: &[Table], dead: &[String], diag: &mut Vec<String>) -> String {
    let mut parts: Vec<String> = Vec::new();
    for t in live {
        let cols: Vec<&str> = t.cols.iter().map(|c| c.name.as_str()).collect();
        let r = db.execute(&format!("SELECT row_id, {} FROM {}", cols.join(", "), t.name)).map_err(|e| e.to_string());
        parts.push(format!("{}={}", t.name, show_result(r, true, diag)));
    }
    for n in dead {
        let r = db.execute(&format!("SELECT * FROM {}", n)).map_err(|e| e.to_string());
        parts.push(format!("!{}={}", n, show_result(r, true, diag)));
    }
    parts.join(" ")
}

fn cfg_of(c: &Cfg) -> DBConfig {
    DBConfig::builder()
        .page_size(c.page_size)
        .cache_size(c.cache)
        .pool_size(c.pool)
        .min_keys_per_page(c.min_keys)
        .num_siblings_per_side(c.siblings)
        .build()
}

/// what the pager works with after create / open: page size, min keys, siblings (all three live in page zero)
fn show_hdr(db: &Database) -> String {
    let p = db.pager().read();
    format!("hdr={},{},{}", p.page_size(), p.min_keys_per_page(), p.num_siblings_per_side())
}

fn run_in(dir: &std::path::Path, head: &Head, ops: &[Op]) -> String {
    let path = dir.join("db.axm");
    let mut db = match Database::create(&path, cfg_of(&head.cfg)) {
        Ok(d) => d,
        Err(e) => return format!("create-failed ## {}", e),
    };
    let mut diag: Vec<String> = Vec::new();
    let mut sessions: BTreeMap<String, Session> = BTreeMap::new();
    let mut outs: Vec<String> = Vec::new();
    let mut live: Vec<Table> = Vec::new();
    let mut dead: Vec<String> = vec!["zzneverzz".to_string()];
    for op in ops {
        let o = match op {
            Op::Begin(s) => {
                sessions.remove(s);
                match db.session() {
                    Ok(x) => {
                        sessions.insert(s.clone(), x);
                        "ok".to_string()
                    }
                    Err(e) => err_class(&e.to_string()).to_string(),
                }
            }
            Op::Commit(s) => match sessions.get_mut(s) {
                None => "nosession".into(),
                Some(x) => {
                    let r = x.commit_transaction();
                    let o = match r {
                        Ok(()) => "ok".to_string(),
                        Err(e) => {
                            diag.push(e.to_string().chars().take(100).collect());
                            err_class(&e.to_string()).to_string()
                        }
                    };
                    sessions.remove(s);
                    o
                }
            },
            Op::Rollback(s) => match sessions.get_mut(s) {
                None => "nosession".into(),
                Some(x) => {
                    let r = x.abort_transaction();
                    let o = match r {
                        Ok(()) => "ok".to_string(),
                        Err(e) => err_class(&e.to_string()).to_string(),
                    };
                    sessions.remove(s);
                    o
                }
            },
            Op::Drop(s) => match sessions.remove(s) {
                None => "nosession".into(),
                Some(x) => {
                    drop(x);
                    "ok".into()
                }
            },
            Op::Exec(s, st) => match sessions.get_mut(s) {
                None => "nosession".into(),
                Some(x) => {
                    let r = x.execute(&sql_of(st)).map_err(|e| e.to_string());
                    show_result(r, matches!(st, Stmt::Sel { .. }), &mut diag)
                }
            },
            Op::Auto(st) => {
                let r = db.execute(&sql_of(st)).map_err(|e| e.to_string());
                show_result(r, matches!(st, Stmt::Sel { .. }), &mut diag)
            }
            Op::Batch(sts) => {
                let sqls: Vec<String> = sts.iter().map(sql_of).collect();
                let refs: Vec<&str> = sqls.iter().map(|s| s.as_str()).collect();
                match db.execute_batch(&refs) {
                    Ok(rs) => {
                        let parts: Vec<String> = rs
                            .into_iter()
                            .zip(sts.iter())
                            .map(|(r, st)| show_result(Ok(r), matches!(st, Stmt::Sel { .. }), &mut diag))
                            .collect();
                        format!("batch({})", parts.join(" "))
                    }
                    Err(e) => {
                        diag.push(e.to_string().chars().take(100).collect());
                        format!("batch-{}", err_class(&e.to_string()))
                    }
                }
            }
            Op::Create(t) => {
                let r = db.execute(&sql_create(t)).map_err(|e| e.to_string());
                let o = show_result(r, false, &mut diag);
                if o.starts_with("ddl") {
                    live.retain(|x| x.name != t.name);
                    live.push(t.clone());
                    dead.retain(|x| *x != t.name);
                }
                o
            }
            Op::DropTable(n) => {
                let r = db.execute(&format!("DROP TABLE {}", n)).map_err(|e| e.to_string());
                let o = show_result(r, false, &mut diag);
                if o == "ddl" {
                    live.retain(|x| x.name != *n);
                    if !dead.contains(n) {
                        dead.push(n.clone());
                    }
                }
                o
            }
            Op::Vacuum => {
                let o = match db.vacuum() {
                    Ok(_) => "ok".to_string(),
                    Err(e) => {
                        diag.push(e.to_string().chars().take(100).collect());
                        err_class(&e.to_string()).to_string()
                    }
                };
                // VACUUM has rolled back every open transaction.  The session objects are never finished (leaked, as at a
                // `reopen leak`): nothing but the VACUUM itself and the close may have recorded their rollback.
                for (_, s) in std::mem::take(&mut sessions) {
                    std::mem::forget(s);
                }
                o
            }
            Op::Burn(n) => {
                let mut res = "ok".to_string();
                for _ in 0..*n {
                    match db.session() {
                        Ok(mut s) => {
                            if let Err(e) = s.commit_transaction() {
                                res = err_class(&e.to_string()).to_string();
                                break;
                            }
                        }
                        Err(e) => {
                            res = err_class(&e.to_string()).to_string();
                            break;
                        }
                    }
                }
                res
            }
            Op::Tid => match db.session() {
                Ok(mut s) => match s.commit_transaction() {
                    Ok(()) => format!("tid{}", db.coordinator().get_last_committed()),
                    Err(e) => err_class(&e.to_string()).to_string(),
                },
                Err(e) => err_class(&e.to_string()).to_string(),
            },
            Op::Reopen { how, cfg } => {
                if *how == How::Leak {
                    // the handle is dropped while sessions are still open; the sessions are never finished
                    for (_, s) in std::mem::take(&mut sessions) {
                        std::mem::forget(s);
                    }
                    drop(db);
                } else {
                    // sessions still open are dropped first (= rollback): the close is quiescent
                    sessions.clear();
                    if *how == How::Flush {
                        if let Err(e) = db.flush() {
                            diag.push(format!("flush: {}", e));
                        }
                    }
                    drop(db);
                }
                let r = std::panic::catch_unwind(std::panic::AssertUnwindSafe(|| Database::open(&path, cfg_of(cfg))));
                match r {
                    Ok(Ok(d)) => {
                        db = d;
                        let h = show_hdr(&db);
                        format!("reopen{{{} {}}}", h, observe(&db, &live, &dead, &mut diag))
                    }
                    Ok(Err(e)) => {
                        let mut line = format!("{} open-failed", outs.join(" "));
                        line.push_str(&format!(" ## {}", e.to_string().chars().take(200).collect::<String>()));
                        return line;
                    }
                    Err(_) => {
                        return format!("{} open-panicked", outs.join(" "));
                    }
                }
            }
        };
        outs.push(o);
    }
    drop(sessions);
    let fin = observe(&db, &live, &dead, &mut diag);
    drop(db);
    let mut line = format!("{} | {}", outs.join(" "), fin);
    if !diag.is_empty() {
        // messages of errors outside the expected classes first, then a few of the routine ones
        let (mut odd, mut routine): (Vec<String>, Vec<String>) = diag.into_iter().partition(|m| err_class(m) == "other");
        odd.truncate(8);
        routine.truncate(4);
        odd.extend(routine);
        line.push_str(" ## ");
        line.push_str(&odd.join(" // "));
    }
    line
}

// ------------------------------------------------------------------------------------------------ generation
//
// A case is built segment by segment; segments are separated by `reopen` ops.  The generator keeps a small picture of
// the database (which keys are committed in which table, which sessions are open and what they have pending) so that
// the case stays inside the clean region of the shared MVCC model:
//   * keys are never reused (a deleted unique key is not inserted again);
//   * a session deletes only committed rows that no other open session has touched;
//   * UPDATE is issued only in autocommit mode while no session is open, and only on tables without a unique index;
//   * statements that fail do so on their first row.
// The finding families lift exactly one restriction each and carry a `kf:` tag.

#[derive(Clone, Copy, PartialEq)]
enum Fam {
    Clean,
    RollbackUpdate, // kf: updateKeepsInserterXmin (C03/C04)
}

struct TInfo {
    name: String,
    uniq: bool,          // u-shaped: (k:big*, v:int!, w:text); otherwise (k:big, v:int)
    keys: Vec<i64>,      // committed, not deleted
}

struct SInfo {
    name: String,
    /// committed keys per table when the session began (what its snapshot sees)
    seen: Vec<Vec<i64>>,
    ins: Vec<(usize, i64)>, // (table index, key) inserted, pending
    del: Vec<(usize, i64)>, // deleted, pending
}

struct Gen<'a> {
    rng: &'a mut Rng,
    ops: Vec<String>,
    tables: Vec<TInfo>,
    dropped: Vec<String>,
    open: Vec<SInfo>,
    next_key: i64,
    next_tab: usize,
    rb_delete: bool,
    /// rows of 600 bytes and more (overflow chains from ~1 KiB per 4 KiB page): region `bigrows`, see cfg/C09.py
    big: bool,
    tags: Vec<String>,
    // for the non-triviality rule
    seg_alloc: bool,
    seg_rollback: bool,
    alloc_before: bool,
    rollback_before: bool,
    nt: bool,
}

const PAGE_SIZES: [usize; 4] = [4096, 8192, 16384, 65536];
const CACHES: [usize; 3] = [64, 512, 10000];
const WIDE_CACHES: [usize; 5] = [65535, 65536, 65538, 131072, 200000];

fn gen_cfg(rng: &mut Rng) -> String {
    let ps = *rng.pick(&PAGE_SIZES);
    // 4 KiB pages with a minimum key count of 4 or 5 are the region of the catalog-overflow finding (cfg/C09.py): kept rarer
    let mk = if ps == 4096 && rng.chance(2, 3) { 3 } else { rng.range(3, 5) };
    // the header keeps the cache size in 16 bits: sizes at and beyond that width are part of "every cache size"
    let cache = if rng.chance(1, 6) { *rng.pick(&WIDE_CACHES) } else { *rng.pick(&CACHES) };
    format!("{} {} {} {} {}", ps, cache, rng.range(1, 4), mk, rng.range(1, 3))
}

impl<'a> Gen<'a> {
    fn tag(&mut self, t: &str) {
        if !self.tags.iter().any(|x| x == t) {
            self.tags.push(t.to_string());
        }
    }
    fn push(&mut self, op: String) {
        self.ops.push(op);
    }
    fn key(&mut self) -> i64 {
        self.next_key += 1;
        self.next_key
    }
    fn text(&mut self) -> String {
        let hi = if self.big { 10 } else { 6 };
        if self.big {
            self.tag("bigrows");
        }
        match self.rng.below(hi) {
            0..=4 => format!("'{}'", self.rng.pick(&["a", "abc", "row", "xyzzy", "q"])),
            5 => "null".into(),
            6 => {
                self.tag("text_600B");
                format!("^{}{}", self.rng.pick(&["ab", "xyz"]), 300)
            }
            7 => {
                self.tag("text_3-6KiB");
                format!("^{}{}", self.rng.pick(&["ab", "cde"]), self.rng.range(1500, 2000))
            }
            8 => {
                self.tag("text_9-20KiB");
                format!("^{}{}", self.rng.pick(&["abc", "wxyz"]), self.rng.range(3000, 5000))
            }
            _ => {
                // a row image must fit into one 40 KB block of the write-ahead log: larger rows are refused with an I/O error
                self.tag("text_20-36KiB");
                format!("^abcdefghij{}", self.rng.range(2000, 3600))
            }
        }
    }
    fn row(&mut self, ti: usize, k: i64) -> String {
        if self.tables[ti].uniq {
            let w = self.text();
            format!("{} {} {}", k, self.rng.range(0, 99), w)
        } else {
            format!("{} {}", k, self.rng.range(0, 99))
        }
    }
    fn create(&mut self, uniq: bool) {
        let name = if self.tables.is_empty() && !uniq {
            "t".to_string()
        } else if uniq && !self.tables.iter().any(|t| t.name == "u") && !self.dropped.iter().any(|d| d == "u") {
            "u".to_string()
        } else {
            self.next_tab += 1;
            format!("x{}", self.next_tab)
        };
        let spec = if uniq { format!("{}(k:big*,v:int!,w:text)", name) } else { format!("{}(k:big,v:int)", name) };
        self.push(format!("create {}", spec));
        self.tables.push(TInfo { name, uniq, keys: vec![] });
        self.seg_alloc = true;
        self.tag("create");
    }
    fn locked(&self, ti: usize, k: i64) -> bool {
        self.open.iter().any(|s| s.del.contains(&(ti, k)))
    }
    fn pick_table(&mut self) -> Option<usize> {
        if self.tables.is_empty() { None } else { Some(self.rng.below(self.tables.len() as u64) as usize) }
    }
    fn auto_insert(&mut self) {
        let Some(ti) = self.pick_table() else { return };
        let n = if self.rng.chance(1, 4) { self.rng.range(2, 3) } else { 1 };
        let mut parts = Vec::new();
        let mut ks = Vec::new();
        for _ in 0..n {
            let k = self.key();
            ks.push(k);
            parts.push(self.row(ti, k));
        }
        let name = self.tables[ti].name.clone();
        self.push(format!("db ins {} {}", name, parts.join(" , ")));
        self.tables[ti].keys.extend(ks);
        self.seg_alloc = true;
        self.tag("auto_insert");
    }
    fn auto_batch(&mut self) {
        let Some(ti) = self.pick_table() else { return };
        let name = self.tables[ti].name.clone();
        let n = self.rng.range(2, 3);
        let mut parts = Vec::new();
        for _ in 0..n {
            let k = self.key();
            let r = self.row(ti, k);
            parts.push(format!("ins {} {}", name, r));
            self.tables[ti].keys.push(k);
        }
        self.push(format!("db batch {}", parts.join(" & ")));
        self.seg_alloc = true;
        self.tag("batch");
    }
    fn auto_delete(&mut self) {
        let Some(ti) = self.pick_table() else { return };
        let cand: Vec<i64> = self.tables[ti].keys.iter().copied().filter(|k| !self.locked(ti, *k)).collect();
        if cand.is_empty() {
            return;
        }
        let k = *self.rng.pick(&cand);
        let name = self.tables[ti].name.clone();
        self.push(format!("db del {} where k eq {}", name, k));
        self.tables[ti].keys.retain(|x| *x != k);
        self.tag("auto_delete");
    }
    fn auto_update(&mut self) {
        // only while no session is open, only on tables without a unique index (see the header of this section)
        if !self.open.is_empty() {
            return;
        }
        let plain: Vec<usize> = (0..self.tables.len()).filter(|i| !self.tables[*i].uniq && !self.tables[*i].keys.is_empty()).collect();
        if plain.is_empty() {
            return;
        }
        let ti = *self.rng.pick(&plain);
        let k = *self.rng.pick(&self.tables[ti].keys);
        let name = self.tables[ti].name.clone();
        if self.rng.chance(1, 2) {
            let d = self.rng.range(1, 9);
            self.push(format!("db upd {} v add {} where k eq {}", name, d, k));
        } else {
            let d = self.rng.range(100, 199);
            self.push(format!("db upd {} v set {} where k eq {}", name, d, k));
        }
        self.tag("auto_update");
    }
    fn read(&mut self, who: Option<usize>) {
        let Some(ti) = self.pick_table() else { return };
        let name = self.tables[ti].name.clone();
        let q = match self.rng.below(4) {
            0 | 1 => format!("sel {}", name),
            2 => format!("sel {} where k ge {}", name, self.rng.range(1, self.next_key.max(1))),
            _ => format!("sel {} where v lt {}", name, self.rng.range(0, 99)),
        };
        match who {
            Some(si) => {
                let s = self.open[si].name.clone();
                self.push(format!("{} {}", s, q));
            }
            None => self.push(format!("db {}", q)),
        }
    }
    fn failing(&mut self, who: Option<usize>) {
        // statements that must be rejected, each on its first row / at bind time
        let uniq: Vec<usize> = (0..self.tables.len()).filter(|i| self.tables[*i].uniq).collect();
        let mut cands: Vec<String> = Vec::new();
        for ti in &uniq {
            let name = self.tables[*ti].name.clone();
            // a duplicate of a key that is committed now and, for a session, was already committed when it began
            let k = self.tables[*ti].keys.iter().copied().find(|k| match who {
                Some(si) => self.open[si].seen.get(*ti).map(|v| v.contains(k)).unwrap_or(false),
                None => true,
            });
            if let Some(k) = k {
                if !self.locked(*ti, k) {
                    cands.push(format!("ins {} {} 1 'dup'", name, k));
                }
            }
            cands.push(format!("ins {} {} null 'nn'", name, self.next_key + 1000));
        }
        if let Some(d) = self.dropped.first() {
            cands.push(format!("sel {}", d));
            cands.push(format!("ins {} 1 1", d));
        }
        cands.push("sel nosuch".into());
        let st = self.rng.pick(&cands).clone();
        if st.contains("'dup'") {
            self.tag("probe_duplicate_key");
        }
        if st.contains("'nn'") {
            self.tag("probe_not_null");
        }
        match who {
            Some(si) => {
                let s = self.open[si].name.clone();
                self.push(format!("{} {}", s, st));
            }
            None => {
                self.push(format!("db {}", st));
                self.seg_rollback = true; // a failing autocommit statement is a rolled-back transaction
            }
        }
    }
    fn sess_begin(&mut self) {
        if self.open.len() >= 3 || self.tables.is_empty() {
            return;
        }
        let mut i = 1;
        while self.open.iter().any(|s| s.name == format!("s{}", i)) {
            i += 1;
        }
        let name = format!("s{}", i);
        self.push(format!("{} begin", name));
        let seen = self.tables.iter().map(|t| t.keys.clone()).collect();
        self.open.push(SInfo { name, seen, ins: vec![], del: vec![] });
        self.seg_alloc = true;
        self.tag("session");
        if self.open.len() >= 2 {
            self.tag("concurrent_sessions");
        }
    }
    fn sess_stmt(&mut self, fam: Fam) {
        if self.open.is_empty() {
            return;
        }
        let si = self.rng.below(self.open.len() as u64) as usize;
        let s = self.open[si].name.clone();
        match self.rng.below(10) {
            0..=4 => {
                let Some(ti) = self.pick_table() else { return };
                let k = self.key();
                let r = self.row(ti, k);
                let name = self.tables[ti].name.clone();
                self.push(format!("{} ins {} {}", s, name, r));
                self.open[si].ins.push((ti, k));
                self.tag("session_insert");
            }
            5 | 6 => {
                let Some(ti) = self.pick_table() else { return };
                let cand: Vec<i64> = self.tables[ti].keys.iter().copied().filter(|k| !self.locked(ti, *k)).collect();
                if cand.is_empty() {
                    return;
                }
                let k = *self.rng.pick(&cand);
                let name = self.tables[ti].name.clone();
                if fam == Fam::RollbackUpdate && !self.tables[ti].uniq && self.rng.chance(1, 2) {
                    let d = self.rng.range(200, 299);
                    self.push(format!("{} upd {} v set {} where k eq {}", s, name, d, k));
                    self.open[si].del.push((ti, k)); // counts as touched
                    self.open[si].ins.push((usize::MAX, k)); // marker: an update, nothing to apply on commit
                    self.tag("session_update");
                } else {
                    self.push(format!("{} del {} where k eq {}", s, name, k));
                    self.open[si].del.push((ti, k));
                    self.tag("session_delete");
                }
            }
            7 | 8 => self.read(Some(si)),
            _ => self.failing(Some(si)),
        }
    }
    fn sess_end(&mut self, si: usize, how: &str) {
        let s = self.open.remove(si);
        self.push(format!("{} {}", s.name, how));
        let updated: Vec<i64> = s.ins.iter().filter(|(t, _)| *t == usize::MAX).map(|(_, k)| *k).collect();
        if how == "commit" {
            for (ti, k) in &s.ins {
                if *ti != usize::MAX {
                    self.tables[*ti].keys.push(*k);
                }
            }
            for (ti, k) in &s.del {
                if !updated.contains(k) {
                    self.tables[*ti].keys.retain(|x| x != k);
                }
            }
            self.tag("commit");
        } else {
            self.seg_rollback = true;
            if s.del.iter().any(|(_, k)| !updated.contains(k)) {
                self.rb_delete = true;
            }
            if !updated.is_empty() {
                self.tag("kf:rollback_update");
            }
            self.tag(if how == "rollback" { "rollback" } else { "session_drop" });
        }
    }
    fn end_some_session(&mut self) {
        if self.open.is_empty() {
            return;
        }
        let si = self.rng.below(self.open.len() as u64) as usize;
        let how = match self.rng.below(10) {
            0..=4 => "commit",
            5..=7 => "rollback",
            _ => "drop",
        };
        self.sess_end(si, how);
    }
    fn close_all_sessions(&mut self) {
        while !self.open.is_empty() {
            self.end_some_session();
        }
    }
    fn drop_table(&mut self) {
        if self.tables.len() < 2 || !self.open.is_empty() {
            return;
        }
        let ti = self.rng.below(self.tables.len() as u64) as usize;
        let t = self.tables.remove(ti);
        self.push(format!("droptable {}", t.name));
        if !self.dropped.contains(&t.name) {
            self.dropped.push(t.name.clone());
        }
        self.tag("drop_table");
        // sometimes the name comes back as a new, empty table
        if self.rng.chance(1, 3) {
            let spec = if t.uniq { format!("{}(k:big*,v:int!,w:text)", t.name) } else { format!("{}(k:big,v:int)", t.name) };
            self.push(format!("create {}", spec));
            self.dropped.retain(|d| *d != t.name);
            self.tables.push(TInfo { name: t.name, uniq: t.uniq, keys: vec![] });
            self.tag("recreate_dropped_name");
        }
    }
    fn segment(&mut self, fam: Fam, len: usize) {
        for _ in 0..len {
            match self.rng.below(20) {
                0..=3 => self.auto_insert(),
                4 => self.auto_batch(),
                5 => self.auto_delete(),
                6 => self.auto_update(),
                7 => self.read(None),
                8 => self.failing(None),
                9 | 10 => self.sess_begin(),
                11..=15 => self.sess_stmt(fam),
                16 | 17 => self.end_some_session(),
                18 => {
                    self.push("tid".into());
                    self.seg_alloc = true;
                    self.tag("tid");
                }
                _ => {
                    if self.open.is_empty() {
                        if self.rng.chance(1, 2) {
                            let u = self.rng.chance(1, 2);
                            self.create(u);
                        } else {
                            self.drop_table();
                        }
                    }
                }
            }
        }
    }
    fn reopen(&mut self) {
        let how = match self.rng.below(10) {
            0..=3 => "drop",
            4..=7 => "flush",
            _ => "leak",
        };
        if how == "leak" && !self.open.is_empty() {
            self.tag("open_session_at_close");
            self.seg_rollback = true;
            if self.open.iter().any(|s| !s.del.is_empty()) {
                self.rb_delete = true;
            }
            if self.open.iter().any(|s| s.ins.iter().any(|(t, _)| *t == usize::MAX)) {
                self.tag("kf:rollback_update");
            }
            self.open.clear();
        } else if !self.open.is_empty() {
            // either finish them in the history or let the close roll them back
            if self.rng.chance(1, 2) {
                self.close_all_sessions();
            } else {
                self.tag("session_dropped_by_close");
                self.seg_rollback = true;
                if self.open.iter().any(|s| !s.del.is_empty()) {
                    self.rb_delete = true;
                }
                if self.open.iter().any(|s| s.ins.iter().any(|(t, _)| *t == usize::MAX)) {
                    self.tag("kf:rollback_update");
                }
                self.open.clear();
            }
        }
        if self.open.is_empty() && self.rng.chance(1, 4) {
            self.push("vacuum".into());
            self.tag("vacuum_before_close");
            if self.rb_delete {
                self.tag("vacuum_after_rolled_back_delete");
            }
        }
        let cfg = gen_cfg(self.rng);
        self.push(format!("reopen {} {}", how, cfg));
        self.tag(&format!("close_{}", how));
        if self.seg_alloc {
            self.alloc_before = true;
        }
        if self.seg_rollback {
            self.rollback_before = true;
        }
        self.seg_alloc = false;
        self.seg_rollback = false;
        // freshness probes right after the open: a transaction id, an accepted and a rejected insert, a new table
        self.push("tid".into());
        if let Some(ti) = (0..self.tables.len()).find(|i| self.tables[*i].uniq && !self.tables[*i].keys.is_empty()) {
            let k = self.tables[ti].keys[0];
            let name = self.tables[ti].name.clone();
            self.push(format!("db ins {} {} 1 'dup'", name, k));
            self.tag("probe_duplicate_key");
        }
        if let Some(ti) = self.pick_table() {
            let k = self.key();
            let r = self.row(ti, k);
            let name = self.tables[ti].name.clone();
            self.push(format!("db ins {} {}", name, r));
            self.tables[ti].keys.push(k);
        }
        if self.rng.chance(1, 3) {
            let u = self.rng.chance(1, 2);
            self.create(u);
            self.tag("create_after_reopen");
        }
        if self.alloc_before && self.rollback_before {
            self.nt = true; // allocation after the reopen is guaranteed by the probes
        }
    }
}

fn gen_history(rng: &mut Rng, fam: Fam, big: bool, n_reopen: usize, seg_len: usize) -> Case {
    let head = gen_cfg(rng);
    let mut g = Gen {
        rng,
        ops: vec![],
        tables: vec![],
        dropped: vec![],
        open: vec![],
        next_key: 0,
        next_tab: 0,
        rb_delete: false,
        big,
        tags: vec![],
        seg_alloc: false,
        seg_rollback: false,
        alloc_before: false,
        rollback_before: false,
        nt: false,
    };
    g.create(false);
    g.create(true);
    for _ in 0..n_reopen {
        let l = 2 + g.rng.below(seg_len as u64) as usize;
        g.segment(fam, l);
        g.reopen();
    }
    let l = 1 + g.rng.below(seg_len as u64) as usize;
    g.segment(fam, l);
    g.close_all_sessions();
    let mut tags = g.tags.clone();
    tags.push(format!("reopens{}", n_reopen));
    let hw: Vec<&str> = head.split(' ').collect();
    tags.push(format!("create_ps{}", hw[0]));
    tags.push(format!("create_cache{}", hw[1]));
    if g.nt {
        tags.push("nt".into());
    }
    if tags.iter().any(|t| t == "bigrows") {
        tags.push("kf:bigrows".into());
    }
    // small pages and a high minimum key count (= small inline limit, so catalog rows spill early): the conditions under
    // which the B+tree's aliased overflow chains have been seen to bite the catalog (cfg/C09.py)
    if hw[0] == "4096" && hw[3] != "3" && !tags.iter().any(|t| t.starts_with("kf:")) {
        tags.push("kf:overflow_alias".into());
    }
    if !tags.iter().any(|t| t.starts_with("kf:")) {
        tags.push("clean".into());
    }
    Case { line: format!("reopen {} | {}", head, g.ops.join(" ; ")), tags }
}

/// more than 255 rows inserted into one table (each insert re-versions the table's catalog row), then reopen
fn gen_many_inserts(rng: &mut Rng) -> Case {
    let mut ops: Vec<String> = vec!["create t(k:big,v:int)".into()];
    let mut k = 0;
    let total = 256 + rng.range(4, 60);
    while k < total {
        let n = rng.range(1, 40).min(total - k);
        let rows: Vec<String> = (0..n).map(|i| format!("{} {}", k + i + 1, (k + i) % 7)).collect();
        ops.push(format!("db ins t {}", rows.join(" , ")));
        k += n;
    }
    ops.push("s1 begin".into());
    ops.push(format!("s1 ins t {} 1", k + 1));
    ops.push("s1 rollback".into());
    ops.push(format!("reopen {} {}", rng.pick(&["drop", "flush"]), gen_cfg(rng)));
    ops.push(format!("db ins t {} 2", k + 2));
    ops.push("tid".into());
    Case { line: format!("reopen {} | {}", gen_cfg(rng), ops.join(" ; ")), tags: vec!["inserts>255".into(), "nt".into(), "clean".into()] }
}

/// more transactions than the aborted bitmap of page zero has bits, with rollbacks at ids of every magnitude
/// (≈ 5, 600, 2 600, 5 600, just below and above 8 192)
pub fn gen_many_txns(rng: &mut Rng) -> Case {
    let mut ops: Vec<String> = vec!["create t(k:big,v:int)".into(), "db ins t 1 10".into()];
    let mut key = 1;
    let mut used: i64 = 2; // transaction ids handed out so far
    let mut rollback = |ops: &mut Vec<String>, used: &mut i64| {
        key += 1;
        ops.push("s1 begin".into());
        ops.push(format!("s1 ins t {} {}", key, key * 10));
        ops.push("s1 rollback".into());
        key += 1;
        ops.push(format!("db ins t {} {}", key, key * 10));
        *used += 2;
    };
    rollback(&mut ops, &mut used);
    for target in [600i64, 2600, 5600, 8150] {
        let t = target + rng.range(0, 30);
        ops.push(format!("burn {}", t - used));
        used = t;
        rollback(&mut ops, &mut used);
    }
    let t = 8192 + rng.range(0, 40);
    ops.push(format!("burn {}", t - used));
    ops.push("tid".into());
    ops.push("s1 begin".into());
    ops.push("s1 ins t 100 1000".into());
    ops.push("s1 del t where k eq 1".into());
    ops.push("s1 rollback".into());
    ops.push("db ins t 101 1010".into());
    ops.push("db sel t".into());
    ops.push(format!("reopen {} {}", rng.pick(&["drop", "flush"]), gen_cfg(rng)));
    ops.push("db sel t".into());
    ops.push("tid".into());
    ops.push("db ins t 102 1020".into());
    Case {
        line: format!("reopen {} | {}", gen_cfg(rng), ops.join(" ; ")),
        tags: vec!["txn_ids>8192".into(), "nt".into(), "kf:txn_ids>8192".into()],
    }
}

/// a run of consecutive rolled-back transactions (every residue of the id modulo the bitmap's bytes and words), each
/// with an INSERT or a DELETE, then close and open; `start` = number of transactions burnt first (the sweep across
/// id 8192 pins the exact size of the bitmap: ids below it must be remembered)
fn gen_rollback_sweep(rng: &mut Rng, start: i64, n: i64) -> Case {
    let mut ops: Vec<String> = vec!["create t(k:big,v:int)".into()];
    let base = 20;
    let rows: Vec<String> = (1..=base).map(|k| format!("{} {}", k, k)).collect();
    ops.push(format!("db ins t {}", rows.join(" , ")));
    if start > 0 {
        ops.push(format!("burn {}", start));
    }
    ops.push("tid".into());
    for i in 0..n {
        ops.push("s1 begin".into());
        if i % 3 == 2 {
            ops.push(format!("s1 del t where k eq {}", 1 + (i % base)));
        } else {
            ops.push(format!("s1 ins t {} {}", 1000 + i, i));
        }
        ops.push(if i % 5 == 4 { "s1 drop".into() } else { "s1 rollback".into() });
    }
    ops.push("tid".into());
    ops.push(format!("reopen {} {}", rng.pick(&["drop", "flush"]), gen_cfg(rng)));
    ops.push("tid".into());
    ops.push("db ins t 5000 1".into());
    let mut tags = vec!["rollback_sweep".to_string(), "nt".into()];
    if start + n + 4 >= 8192 {
        tags.push("txn_ids>8192".into());
        tags.push("kf:txn_ids>8192".into());
    } else {
        tags.push("clean".into());
    }
    Case { line: format!("reopen {} | {}", gen_cfg(rng), ops.join(" ; ")), tags }
}

/// a transaction REFUSED at commit (first committer wins) is rolled back like any other and has to stay rolled back
/// across a close: two sessions write the same row (both delete it) or insert the same unique key, the loser also
/// inserts elsewhere, the winner commits, the loser's COMMIT is refused, more work is committed, close, open, read.
/// The loser is the FIRST deleter / the SECOND inserter: the row's delete mark and the key's index entry are then the
/// winner's (the other order is the single-slot / one-entry findings of C04 / C07).
fn gen_refused_commit(rng: &mut Rng) -> Case {
    let mut ops: Vec<String> = vec!["create t(k:big,v:int)".into(), "create u(k:big*,v:int!,w:text)".into()];
    let n = rng.range(2, 5);
    let rows: Vec<String> = (1..=n).map(|k| format!("{} {}", k, 10 * k)).collect();
    ops.push(format!("db ins t {}", rows.join(" , ")));
    ops.push("db ins u 1 1 'a' , 2 2 'b'".into());
    if rng.chance(1, 3) {
        ops.push(format!("burn {}", rng.range(1, 40)));
    }
    let mut key = 100;
    let mut kinds: Vec<&str> = Vec::new();
    for _ in 0..rng.range(1, 3) {
        key += 10;
        let (lo, wi) = if rng.chance(1, 2) { ("s1", "s2") } else { ("s2", "s1") };
        ops.push(format!("{} begin", lo));
        ops.push(format!("{} begin", wi));
        let same_row = rng.chance(1, 2);
        if same_row {
            kinds.push("refused_same_row");
            let victim = rng.range(1, n);
            // the row may be gone already (an earlier round deleted it): both DELETEs then touch nothing and both commit
            ops.push(format!("{} del t where k eq {}", lo, victim));
            ops.push(format!("{} ins t {} 1", lo, key));
            ops.push(format!("{} del t where k eq {}", wi, victim));
        } else {
            kinds.push("refused_same_key");
            ops.push(format!("{} ins u {} 5 'w'", wi, key));
            ops.push(format!("{} ins u {} 6 'l'", lo, key));
            ops.push(format!("{} ins t {} 2", lo, key));
        }
        // the loser writes elsewhere too
        ops.push(format!("{} ins u {} 7 'x'", lo, key + 1));
        if rng.chance(1, 2) {
            ops.push(format!("{} ins t {} 3 , {} 4", lo, key + 2, key + 3));
        }
        if rng.chance(1, 2) {
            ops.push(format!("{} ins t {} 8", wi, key + 4));
        }
        ops.push(format!("{} commit", wi));
        ops.push(format!("{} commit", lo));
        // committed work after the refusal
        match rng.below(3) {
            0 => ops.push(format!("db ins t {} 9", key + 5)),
            1 => ops.push(format!("s3 begin ; s3 ins u {} 9 'y' ; s3 commit", key + 6)),
            _ => ops.push("tid".into()),
        }
        if rng.chance(1, 3) {
            ops.push("db sel t ; db sel u".into());
        }
    }
    if rng.chance(1, 4) {
        ops.push("vacuum".into());
    }
    ops.push(format!("reopen {} {}", rng.pick(&["drop", "flush", "leak"]), gen_cfg(rng)));
    ops.push("tid".into());
    ops.push("db sel t ; db sel u".into());
    // a key only the loser had inserted is free; one the winner inserted is taken
    ops.push(format!("db ins u {} 1 'free'", key + 1));
    ops.push("db ins u 1 1 'dup'".into());
    if rng.chance(1, 2) {
        ops.push(format!("reopen {} {}", rng.pick(&["drop", "flush"]), gen_cfg(rng)));
        ops.push("db sel t ; db sel u".into());
    }
    let mut tags: Vec<String> = vec!["refused_commit".into(), "concurrent_sessions".into(), "nt".into(), "clean".into()];
    for k in kinds {
        if !tags.iter().any(|t| t == k) {
            tags.push(k.to_string());
        }
    }
    Case { line: format!("reopen {} | {}", gen_cfg(rng), ops.join(" ; ")), tags }
}

/// VACUUM while sessions hold uncommitted work: VACUUM rolls them back (in memory) and removes what they wrote; the
/// session objects are never finished, so nothing but the VACUUM and the close can have recorded the rollback.  With
/// and without a commit between the sessions' begin and the VACUUM (the commit moves VACUUM's horizon), work after the
/// VACUUM, close by drop / flush / leak, one or two reopens, reads and key probes.  Clean region.
fn gen_vacuum_open_session(rng: &mut Rng) -> Case {
    let mut ops: Vec<String> = vec!["create t(k:big,v:int)".into(), "create u(k:big*,v:int!,w:text)".into()];
    ops.push("db ins t 1 10 , 2 20 , 3 30".into());
    ops.push("db ins u 1 1 'a'".into());
    if rng.chance(1, 3) {
        ops.push(format!("burn {}", rng.range(1, 30)));
    }
    let n_sess = rng.range(1, 2);
    for i in 1..=n_sess {
        ops.push(format!("s{} begin", i));
        ops.push(format!("s{} ins t {} {}", i, 10 + i, i));
        if rng.chance(1, 2) {
            ops.push(format!("s{} ins u {} 2 'x'", i, 10 + i));
        }
        if i == 1 && rng.chance(1, 3) {
            ops.push("s1 del t where k eq 1".into());
        }
    }
    if rng.chance(1, 3) {
        ops.push("db ins t 4 40".into());
    }
    if rng.chance(1, 4) {
        ops.push("tid".into());
    }
    ops.push("vacuum".into());
    if rng.chance(1, 2) {
        ops.push("db sel t ; db sel u".into());
    }
    if rng.chance(1, 3) {
        ops.push("db ins t 5 50".into());
    }
    if rng.chance(1, 4) {
        ops.push("s3 begin ; s3 ins t 6 60 ; s3 commit".into());
    }
    ops.push(format!("reopen {} {}", rng.pick(&["drop", "flush", "leak"]), gen_cfg(rng)));
    ops.push("tid".into());
    ops.push("db sel t ; db sel u".into());
    ops.push("db ins u 11 3 'free' ; db ins u 1 1 'dup' ; db ins t 11 1".into());
    if rng.chance(1, 2) {
        ops.push(format!("reopen {} {}", rng.pick(&["drop", "flush"]), gen_cfg(rng)));
        ops.push("db sel t ; db sel u".into());
    }
    let tags: Vec<String> = vec!["vacuum_open_session".into(), "vacuum_before_close".into(), "nt".into(), "clean".into()];
    Case { line: format!("reopen {} | {}", gen_cfg(rng), ops.join(" ; ")), tags }
}

impl Engine for ReopenEngine {
    fn gen_cases(&self, rng: &mut Rng, tier: Tier) -> Vec<Case> {
        let quick = tier == Tier::Quick;
        let mut out = Vec::new();
        for i in 0..(if quick { 150 } else { 1500 }) {
            // 10 % rolled-back UPDATEs (finding of C03/C04), 12 % big rows (B+tree finding of C10/C12), ~7 % catalog overflow risk, ≥ 70 % clean
            let fam = if i % 10 == 9 { Fam::RollbackUpdate } else { Fam::Clean };
            let big = i % 10 == 3 || i % 50 == 7;
            let n_reopen = rng.range(1, 4) as usize;
            let seg = if rng.chance(1, 5) { 16 } else { 8 };
            out.push(gen_history(rng, fam, big, n_reopen, seg));
        }
        for _ in 0..(if quick { 2 } else { 10 }) {
            out.push(gen_many_inserts(rng));
        }
        for _ in 0..(if quick { 24 } else { 240 }) {
            out.push(gen_refused_commit(rng));
        }
        for _ in 0..(if quick { 24 } else { 240 }) {
            out.push(gen_vacuum_open_session(rng));
        }
        for _ in 0..(if quick { 2 } else { 6 }) {
            let start = rng.range(0, 200);
            out.push(gen_rollback_sweep(rng, start, 140));
        }
        // histories longer than the aborted bitmap (2 s each): rollbacks at ids of every magnitude, and a run of rollbacks
        // across id 8192 — the ids 8192 + k of that run meet the transactions k that created and filled the table
        for _ in 0..(if quick { 1 } else { 2 }) {
            out.push(gen_many_txns(rng));
        }
        for _ in 0..(if quick { 1 } else { 3 }) {
            let start = 8192 - rng.range(40, 90);
            out.push(gen_rollback_sweep(rng, start, 140));
        }
        out
    }
    fn exec(&mut self, line: &str) -> String {
        run_case(line)
    }
    fn timeout_ms(&self) -> u64 {
        180_000
    }
}

/// Content of `lean/AxVerif/Generated/<Engine>.lean`, if this engine extracts constants from the code.
pub fn generated() -> Option<(&'static str, String)> {
    None
}
