//! Engine `pager` (C11) — judge mode.
//!
//! Two case kinds (and one regression probe); `exec` returns an *observation* of the real code, the Lean driver judges it.
//!
//! 1. Allocator sequences on a raw pager (`Pager::allocate_page` / `dealloc_page` through `axmosdb::verif::pager::VPager`):
//!      seq <pagesize> <cache> | op ; op ; …
//!        a        allocate_page::<BtreePage>()          o        allocate_page::<OverflowPage>()
//!        d <p>    dealloc_page::<BtreePage>(p)          x <p>    dealloc_page::<OverflowPage>(p)
//!        l <p> <q>  set `next` of overflow page p to q (0 = None), as CellBuilder::build_cell does
//!        f        Pager::flush                           r        flush, drop the pager, Pager::open
//!    A case in which `d`/`x`/`l` names a page id >= total_pages (at that moment) is malformed (`bad-op`).
//!    Observation: `obs <res> h=<first>:<last>:<total> w=<free walk p1+p2…|-> ; …` one entry per op;
//!      res = p<id> | ok | E<io::ErrorKind>; the walk follows `next` from first_free_page for at most total_pages steps.
//!    The judge recomputes every entry with the Lean allocator model.
//!
//! 2. SQL histories on a real `Database` in a scratch directory:
//!      sql <pagesize> <cache> | op ; op ; …
//!        ct <t> | dt <t> | dtc <t> (DROP TABLE … CASCADE) | ci <i> <t> <col> | di <i> (DROP INDEX: does not parse today)
//!        ins <t> <id> <len> | upd <t> <id> <len> | del <t> <id> | delr <t> <lo> <hi>
//!        sK:begin | sK:<dml or ddl op> | sK:commit | sK:rollback
//!        vac | flush | reopen
//!      tables are (id BIGINT, k BIGINT, v TEXT): k = id * 7 + 1 (unique), v = text(len, id)
//!    After **every** op the whole file is dumped (`verif::btree::dump_file` from the roots of all trees of the catalog).
//!    Observation: `obs <step> ; <step> ; …`, step = `r=<ok|E<class>|P<file:line>> T=<total> F=<first>:<last> R=<root,…> <page token>*`
//!      page tokens (only those that changed since the previous step):
//!        L<id>:<prev>:<next>:<slot>@<p1+p2…>,…                 leaf; only cells with an overflow chain are listed
//!        I<id>:<prev>:<next>:<right>:<left>[@<p1+p2…>],…       interior; every cell (= divider) with its left child
//!        O<id>:<next>                                           overflow-shaped page (chain link or free page)
//!        B<id>                                                  unreadable / malformed
//!      R lists the roots: meta table, meta index, and the root named by every physical row of the meta table (a dropped
//!      relation keeps its tree until VACUUM removes its row); a root is followed by `c` if the row's creator was rolled back
//!      and by `d` if its deleter was.
//!      X=<n> (only when n > 0): number of dividers that carry an overflow pointer.
//!      N=<root,…>: the roots of the trees with numeric keys; K<id>:<k1>,<k2>,… the keys of all cells of page <id> of such a tree
//!      (`K<id>:!` = the page has no numeric keys any more): the judge also runs C10's `checkTree` on these trees.
//!    The judge runs `checkOwnership` on every step and the reuse-before-growth rule on consecutive steps.
//!
//! 3. `iter <pagesize>`: a leaf in the middle of a tree is freed behind the tree's back and the tree is iterated;
//!    observation `obs oks=<n> then=<a>,<b>,<c>` = positions before the first error and what the next three `next()` calls
//!    return. Admissible iff the iterator ends after the error (`then=none,none,none`).
use super::{Case, Engine, Tier};
use crate::rng::Rng;
use axmosdb::verif::btree::{DumpCache, FileDump, KeyKind, PageBody, dump_file_cached};
use axmosdb::verif::pager::{PKind, VPager, database_roots, iterator_after_error};
use axmosdb::{DBConfig, Database};
use std::collections::{BTreeMap, VecDeque};
use std::sync::atomic::{AtomicU64, Ordering as AtomicOrdering};

pub struct PagerEngine;

pub fn generated() -> Option<(&'static str, String)> {
    None
}

static COUNTER: AtomicU64 = AtomicU64::new(0);

struct Scratch(std::path::PathBuf);
impl Scratch {
    fn new() -> Scratch {
        let n = COUNTER.fetch_add(1, AtomicOrdering::Relaxed);
        if n == 0 {
            // children that were killed (hang) or aborted could not remove their directory: sweep those of dead processes
            if let Ok(rd) = std::fs::read_dir(std::env::temp_dir()) {
                for e in rd.flatten() {
                    let name = e.file_name().to_string_lossy().to_string();
                    if let Some(rest) = name.strip_prefix("axh-pager-") {
                        let pid = rest.split('-').next().unwrap_or("");
                        if !pid.is_empty() && !std::path::Path::new("/proc").join(pid).exists() {
                            let _ = std::fs::remove_dir_all(e.path());
                        }
                    }
                }
            }
        }
        let d = std::env::temp_dir().join(format!("axh-pager-{}-{}", std::process::id(), n));
        let _ = std::fs::remove_dir_all(&d);
        std::fs::create_dir_all(&d).expect("scratch dir");
        Scratch(d)
    }
}
impl Drop for Scratch {
    fn drop(&mut self) {
        let _ = std::fs::remove_dir_all(&self.0);
    }
}

/// The real code prints debugging lines to stdout (`println!` in runtime/ddl.rs); stdout carries the line protocol, so fd 1
/// points at /dev/null while a case runs and is restored before the answer is written.
struct QuietStdout(i32);
impl QuietStdout {
    fn new() -> QuietStdout {
        use std::io::Write;
        let _ = std::io::stdout().flush();
        unsafe {
            let saved = libc::dup(1);
            let null = libc::open(c"/dev/null".as_ptr(), libc::O_WRONLY);
            if saved >= 0 && null >= 0 {
                libc::dup2(null, 1);
            }
            if null >= 0 {
                libc::close(null);
            }
            QuietStdout(saved)
        }
    }
}
impl Drop for QuietStdout {
    fn drop(&mut self) {
        use std::io::Write;
        let _ = std::io::stdout().flush();
        if self.0 >= 0 {
            unsafe {
                libc::dup2(self.0, 1);
                libc::close(self.0);
            }
        }
    }
}

/// Panics of the database's worker threads do not unwind into `exec`; a chained panic hook records where the first one
/// happened (file:line below src/), so that the step can report `r=P<file:line>` and the history stops there (a dead
/// worker pool would make every later statement wait forever).
static WORKER_PANIC: std::sync::Mutex<Option<String>> = std::sync::Mutex::new(None);
static HOOK: std::sync::Once = std::sync::Once::new();

fn install_worker_hook() {
    HOOK.call_once(|| {
        let prev = std::panic::take_hook();
        std::panic::set_hook(Box::new(move |info| {
            let loc = info
                .location()
                .map(|l| {
                    let f = l.file();
                    let f = f.rsplit_once("/src/").map(|x| x.1).unwrap_or(f);
                    format!("{}:{}", f, l.line())
                })
                .unwrap_or_else(|| "?".into());
            if let Ok(mut g) = WORKER_PANIC.lock() {
                if g.is_none() {
                    *g = Some(loc);
                }
            }
            prev(info);
        }));
    });
}

fn take_worker_panic() -> Option<String> {
    WORKER_PANIC.lock().ok().and_then(|mut g| g.take())
}

fn guard<T>(f: impl FnOnce() -> Result<T, String>) -> Result<T, String> {
    crate::LAST_PANIC.with(|p| *p.borrow_mut() = None);
    match std::panic::catch_unwind(std::panic::AssertUnwindSafe(f)) {
        Ok(r) => r,
        Err(_) => {
            let loc = crate::LAST_PANIC.with(|p| p.borrow_mut().take()).unwrap_or_else(|| "?".into());
            Err(format!("PANIC@{}", loc))
        }
    }
}

fn parse_params(head: &str, kind: &str) -> Option<(usize, usize)> {
    let w: Vec<&str> = head.split(' ').collect();
    if w.len() != 3 || w[0] != kind {
        return None;
    }
    let ps: usize = w[1].parse().ok()?;
    let cache: usize = w[2].parse().ok()?;
    if !(ps == 4096 || ps == 8192) || !(8..=20000).contains(&cache) {
        return None;
    }
    Some((ps, cache))
}

// ------------------------------------------------------------------------------------------------ allocator sequences

#[derive(Clone, Debug, PartialEq)]
enum SOp {
    Alloc(bool),
    Dealloc(u64, bool),
    Link(u64, u64),
    Flush,
    Reopen,
}

fn parse_sop(s: &str) -> Option<SOp> {
    let w: Vec<&str> = s.split(' ').collect();
    let num = |x: &str| -> Option<u64> {
        if x.len() > 7 || x.is_empty() || !x.bytes().all(|b| b.is_ascii_digit()) { None } else { x.parse().ok() }
    };
    Some(match w.as_slice() {
        ["a"] => SOp::Alloc(false),
        ["o"] => SOp::Alloc(true),
        ["d", p] => SOp::Dealloc(num(p)?, false),
        ["x", p] => SOp::Dealloc(num(p)?, true),
        ["l", p, q] => SOp::Link(num(p)?, num(q)?),
        ["f"] => SOp::Flush,
        ["r"] => SOp::Reopen,
        _ => return None,
    })
}

fn show_sop(op: &SOp) -> String {
    match op {
        SOp::Alloc(false) => "a".into(),
        SOp::Alloc(true) => "o".into(),
        SOp::Dealloc(p, false) => format!("d {}", p),
        SOp::Dealloc(p, true) => format!("x {}", p),
        SOp::Link(p, q) => format!("l {} {}", p, q),
        SOp::Flush => "f".into(),
        SOp::Reopen => "r".into(),
    }
}

/// the free list as a reader finds it: follow `next` from `first` for at most `total` steps
fn walk_of(d: &FileDump) -> Vec<u64> {
    let mut out = Vec::new();
    let mut cur = d.first_free.unwrap_or(0);
    while cur != 0 && (out.len() as u64) < d.total_pages {
        out.push(cur);
        let Some(pg) = d.pages.iter().find(|p| p.id == cur) else { break };
        match &pg.body {
            PageBody::Overflow(o) => cur = o.next.unwrap_or(0),
            _ => break,
        }
    }
    out
}

fn join_ids(v: &[u64]) -> String {
    if v.is_empty() { "-".into() } else { v.iter().map(|x| x.to_string()).collect::<Vec<_>>().join("+") }
}

fn exec_seq(line: &str) -> String {
    let Some((head, body)) = line.split_once(" | ") else { return "bad-op".into() };
    let Some((ps, cache)) = parse_params(head, "seq") else { return "bad-op".into() };
    let mut ops = Vec::new();
    for part in body.split(" ; ") {
        match parse_sop(part) {
            Some(o) => ops.push(o),
            None => return "bad-op".into(),
        }
    }
    if ops.is_empty() || ops.len() > 2000 {
        return "bad-op".into();
    }
    let scratch = Scratch::new();
    let Ok(mut vp) = VPager::create(&scratch.0, ps, cache) else { return "create-failed".into() };
    let mut parts = Vec::new();
    for op in &ops {
        let total = vp.header().total;
        let res: Result<String, String> = match op {
            SOp::Alloc(k) => guard(|| vp.alloc(if *k { PKind::Overflow } else { PKind::Btree })).map(|p| format!("p{}", p)),
            SOp::Dealloc(p, k) => {
                if *p >= total {
                    return "bad-op".into();
                }
                guard(|| vp.dealloc(*p, if *k { PKind::Overflow } else { PKind::Btree })).map(|_| "ok".into())
            }
            SOp::Link(p, q) => {
                if *p >= total || *q >= total {
                    return "bad-op".into();
                }
                guard(|| vp.link(*p, if *q == 0 { None } else { Some(*q) })).map(|_| "ok".into())
            }
            SOp::Flush => guard(|| vp.flush()).map(|_| "ok".into()),
            SOp::Reopen => guard(|| vp.reopen()).map(|_| "ok".into()),
        };
        let r = match res {
            Ok(s) => s,
            Err(e) => format!("E{}", e),
        };
        let h = vp.header();
        let d = vp.dump();
        parts.push(format!("{} h={}:{}:{} w={}", r, h.first, h.last, h.total, join_ids(&walk_of(&d))));
        if r.starts_with("EPANIC") {
            break;
        }
    }
    format!("obs {}", parts.join(" ; "))
}

// ------------------------------------------------------------------------------------------------ SQL histories

#[derive(Clone, Debug, PartialEq)]
enum Stmt {
    CreateTable(String),
    DropTable(String),
    DropTableCascade(String),
    CreateIndex(String, String, String),
    DropIndex(String),
    Insert(String, u64, usize),
    Update(String, u64, usize),
    Delete(String, u64),
    DeleteRange(String, u64, u64),
}

#[derive(Clone, Debug, PartialEq)]
enum QOp {
    Auto(Stmt),
    SBegin(u32),
    SStmt(u32, Stmt),
    SCommit(u32),
    SRollback(u32),
    Vacuum,
    Flush,
    Reopen,
}

fn ident_ok(s: &str, pfx: char) -> bool {
    let mut cs = s.chars();
    cs.next() == Some(pfx) && s.len() >= 2 && s.len() <= 4 && cs.all(|c| c.is_ascii_digit())
}

/// text(len, id): lower-case letters depending on position and id
fn text_of(len: usize, id: u64) -> String {
    (0..len).map(|i| (b'a' + ((i as u64 * 7 + id * 3 + (i as u64 / 26)) % 26) as u8) as char).collect()
}

impl Stmt {
    fn parse(w: &[&str]) -> Option<Stmt> {
        let num = |x: &str| -> Option<u64> {
            if x.len() > 7 || x.is_empty() || !x.bytes().all(|b| b.is_ascii_digit()) { None } else { x.parse().ok() }
        };
        Some(match w {
            ["ct", t] if ident_ok(t, 't') => Stmt::CreateTable(t.to_string()),
            ["dt", t] if ident_ok(t, 't') => Stmt::DropTable(t.to_string()),
            ["dtc", t] if ident_ok(t, 't') => Stmt::DropTableCascade(t.to_string()),
            ["ci", i, t, c] if ident_ok(i, 'i') && ident_ok(t, 't') && (*c == "k" || *c == "v" || *c == "id") => {
                Stmt::CreateIndex(i.to_string(), t.to_string(), c.to_string())
            }
            ["di", i] if ident_ok(i, 'i') => Stmt::DropIndex(i.to_string()),
            ["ins", t, id, len] if ident_ok(t, 't') => Stmt::Insert(t.to_string(), num(id)?, num(len).filter(|n| *n <= 60_000)? as usize),
            ["upd", t, id, len] if ident_ok(t, 't') => Stmt::Update(t.to_string(), num(id)?, num(len).filter(|n| *n <= 60_000)? as usize),
            ["del", t, id] if ident_ok(t, 't') => Stmt::Delete(t.to_string(), num(id)?),
            ["delr", t, lo, hi] if ident_ok(t, 't') => Stmt::DeleteRange(t.to_string(), num(lo)?, num(hi)?),
            _ => return None,
        })
    }
    fn show(&self) -> String {
        match self {
            Stmt::CreateTable(t) => format!("ct {}", t),
            Stmt::DropTable(t) => format!("dt {}", t),
            Stmt::DropTableCascade(t) => format!("dtc {}", t),
            Stmt::CreateIndex(i, t, c) => format!("ci {} {} {}", i, t, c),
            Stmt::DropIndex(i) => format!("di {}", i),
            Stmt::Insert(t, id, len) => format!("ins {} {} {}", t, id, len),
            Stmt::Update(t, id, len) => format!("upd {} {} {}", t, id, len),
            Stmt::Delete(t, id) => format!("del {} {}", t, id),
            Stmt::DeleteRange(t, lo, hi) => format!("delr {} {} {}", t, lo, hi),
        }
    }
    fn sql(&self) -> String {
        match self {
            Stmt::CreateTable(t) => format!("CREATE TABLE {} (id BIGINT, k BIGINT, v TEXT)", t),
            Stmt::DropTable(t) => format!("DROP TABLE {}", t),
            Stmt::DropTableCascade(t) => format!("DROP TABLE {} CASCADE", t),
            Stmt::CreateIndex(i, t, c) => format!("CREATE UNIQUE INDEX {} ON {}({})", i, t, c),
            Stmt::DropIndex(i) => format!("DROP INDEX {}", i),
            Stmt::Insert(t, id, len) => format!("INSERT INTO {} VALUES ({}, {}, '{}')", t, id, id * 7 + 1, text_of(*len, *id)),
            Stmt::Update(t, id, len) => format!("UPDATE {} SET v = '{}' WHERE id = {}", t, text_of(*len, *id + 1), id),
            Stmt::Delete(t, id) => format!("DELETE FROM {} WHERE id = {}", t, id),
            Stmt::DeleteRange(t, lo, hi) => format!("DELETE FROM {} WHERE id >= {} AND id < {}", t, lo, hi),
        }
    }
}

fn parse_qop(s: &str) -> Option<QOp> {
    let w: Vec<&str> = s.split(' ').collect();
    if w.is_empty() {
        return None;
    }
    match w.as_slice() {
        ["vac"] => return Some(QOp::Vacuum),
        ["flush"] => return Some(QOp::Flush),
        ["reopen"] => return Some(QOp::Reopen),
        _ => {}
    }
    if let Some((sess, first)) = w[0].split_once(':') {
        let k: u32 = sess.strip_prefix('s').filter(|x| x.len() == 1)?.parse().ok()?;
        return Some(match (first, w.len()) {
            ("begin", 1) => QOp::SBegin(k),
            ("commit", 1) => QOp::SCommit(k),
            ("rollback", 1) => QOp::SRollback(k),
            _ => {
                let mut w2 = vec![first];
                w2.extend_from_slice(&w[1..]);
                QOp::SStmt(k, Stmt::parse(&w2)?)
            }
        });
    }
    Some(QOp::Auto(Stmt::parse(&w)?))
}

fn show_qop(op: &QOp) -> String {
    match op {
        QOp::Auto(s) => s.show(),
        QOp::SBegin(k) => format!("s{}:begin", k),
        QOp::SStmt(k, s) => format!("s{}:{}", k, s.show()),
        QOp::SCommit(k) => format!("s{}:commit", k),
        QOp::SRollback(k) => format!("s{}:rollback", k),
        QOp::Vacuum => "vac".into(),
        QOp::Flush => "flush".into(),
        QOp::Reopen => "reopen".into(),
    }
}

fn db_err_class(e: &axmosdb::DatabaseError) -> &'static str {
    use axmosdb::DatabaseError::*;
    match e {
        Io(_) => "io",
        Query(_) => "query",
        Task(_) => "task",
        AlreadyExists(_) => "exists",
        NotFound(_) => "notfound",
        RecoveryFailed(_) => "recovery",
        Runtime(_) => "runtime",
        TransactionManagement(_) => "txn",
        Other(_) => "other",
    }
}

fn id0(x: Option<u64>) -> u64 {
    x.unwrap_or(0)
}

fn chain_str(c: &axmosdb::verif::btree::CellDump) -> String {
    format!(
        "@{}{}",
        c.overflow_chain.iter().map(|x| x.to_string()).collect::<Vec<_>>().join("+"),
        if c.chain_ok { "" } else { "!" }
    )
}

fn page_tokens(d: &FileDump) -> BTreeMap<u64, String> {
    let mut out = BTreeMap::new();
    for p in &d.pages {
        let tok = match &p.body {
            PageBody::Unreadable(_) => format!("B{}", p.id),
            PageBody::Overflow(o) => format!("O{}:{}", p.id, id0(o.next)),
            PageBody::Btree(b) => {
                if !b.well_formed || b.self_id != p.id {
                    format!("B{}", p.id)
                } else if b.right_child.is_none() {
                    let cells: Vec<String> = b
                        .cells
                        .iter()
                        .enumerate()
                        .filter(|(_, c)| c.is_overflow)
                        .map(|(i, c)| format!("{}{}", i, chain_str(c)))
                        .collect();
                    format!("L{}:{}:{}:{}", p.id, id0(b.prev), id0(b.next), cells.join(","))
                } else {
                    let cells: Vec<String> = b
                        .cells
                        .iter()
                        .map(|c| format!("{}{}", id0(c.left_child), if c.is_overflow { chain_str(c) } else { String::new() }))
                        .collect();
                    format!("I{}:{}:{}:{}:{}", p.id, id0(b.prev), id0(b.next), id0(b.right_child), cells.join(","))
                }
            }
        };
        out.insert(p.id, tok);
    }
    out
}

/// `K<id>:<k1>,<k2>,…`: the keys of all cells of B-tree page `id` in slot order, for pages whose keys are numeric (row ids of
/// tables and of the meta table: BigUInt k -> k; BIGINT index keys: k -> k + 2^63). A page with an undecodable key gets none.
fn key_tokens(d: &FileDump) -> BTreeMap<u64, String> {
    use axmosdb::verif::btree::VKey;
    let mut out = BTreeMap::new();
    for p in &d.pages {
        if let PageBody::Btree(b) = &p.body {
            if !b.well_formed || b.self_id != p.id {
                continue;
            }
            let ks: Option<Vec<String>> = b
                .cells
                .iter()
                .map(|c| match &c.key {
                    Some(VKey::U64(k)) => Some(k.to_string()),
                    Some(VKey::I64(k)) => Some(((*k as i128) + (1i128 << 63)).to_string()),
                    _ => None,
                })
                .collect();
            if let Some(ks) = ks {
                out.insert(p.id, format!("K{}:{}", p.id, ks.join(",")));
            }
        }
    }
    out
}

struct Observer {
    prev: BTreeMap<u64, String>,
    prev_keys: BTreeMap<u64, String>,
    cache: Option<DumpCache>,
    /// index name -> indexed column (from the CREATE INDEX statements of the case)
    index_cols: BTreeMap<String, String>,
}

impl Observer {
    fn step(&mut self, db: &Database) -> String {
        let roots = match guard(|| database_roots(db)) {
            Ok(r) => r,
            Err(e) => return format!("D=Ecatalog:{}", e.split(':').next().unwrap_or("?")),
        };
        // Every physical row of the meta table owns the tree it names, whatever its visibility: DROP only marks the row deleted
        // and VACUUM releases the tree when it removes the row (mark `c`: the row's creator was rolled back, `d`: its deleter
        // was rolled back — informational).
        let mut counted: Vec<(u64, &'static str)> = Vec::new();
        for r in &roots {
            let mark = if r.xmax_aborted {
                "d"
            } else if r.xmin_aborted {
                "c"
            } else {
                ""
            };
            counted.push((r.root, mark));
        }
        // key kind per tree: tables and the meta table are keyed by a BigUInt row id, the meta index by name, an index by its column
        let kind_of = |root: u64| -> KeyKind {
            match roots.iter().find(|r| r.root == root) {
                Some(r) if r.name == "meta_index" => KeyKind::Text,
                Some(r) if r.is_index => match self.index_cols.get(&r.name).map(|s| s.as_str()) {
                    Some("k") | Some("id") => KeyKind::I64,
                    _ => KeyKind::Text,
                },
                _ => KeyKind::U64,
            }
        };
        let rk: Vec<(u64, KeyKind)> = counted.iter().map(|r| (r.0, kind_of(r.0))).collect();
        let numeric: Vec<u64> = rk.iter().filter(|r| r.1 != KeyKind::Text).map(|r| r.0).collect();
        let mut cache = self.cache.take();
        let pager = db.pager().clone();
        let d = match guard(|| Ok(dump_file_cached(&pager, &rk, &mut cache))) {
            Ok(d) => d,
            Err(e) => return format!("D=Edump:{}", e),
        };
        self.cache = cache;
        let toks = page_tokens(&d);
        let mut s = format!(
            "T={} F={}:{} R={}",
            d.total_pages,
            id0(d.first_free),
            id0(d.last_free),
            counted.iter().map(|x| format!("{}{}", x.0, x.1)).collect::<Vec<_>>().join(",")
        );
        // dividers (cells of interior pages) that carry an overflow pointer: the precondition of KF-C11-divider-damage
        let ndiv: usize = d
            .pages
            .iter()
            .map(|p| match &p.body {
                PageBody::Btree(b) if b.right_child.is_some() => b.cells.iter().filter(|c| c.is_overflow).count(),
                _ => 0,
            })
            .sum();
        if ndiv > 0 {
            s.push_str(&format!(" X={}", ndiv));
        }
        if !numeric.is_empty() {
            s.push_str(&format!(" N={}", numeric.iter().map(|x| x.to_string()).collect::<Vec<_>>().join(",")));
        }
        for (id, tok) in &toks {
            if self.prev.get(id) != Some(tok) {
                s.push(' ');
                s.push_str(tok);
            }
        }
        let ktoks = key_tokens(&d);
        for (id, tok) in &ktoks {
            if self.prev_keys.get(id) != Some(tok) {
                s.push(' ');
                s.push_str(tok);
            }
        }
        // a page that lost its key token (no longer a B-tree page with numeric keys)
        for id in self.prev_keys.keys() {
            if !ktoks.contains_key(id) {
                s.push_str(&format!(" K{}:!", id));
            }
        }
        self.prev_keys = ktoks;
        // pages that disappeared cannot happen (total_pages never shrinks); keep the table anyway
        self.prev = toks;
        s
    }
}

/// One-shot page audit of an open database, in the token format of the SQL cases (every page reported): used by the crash
/// engine on recovered images; judged by the same Lean checker (`stepObs` on an empty state).
pub(crate) fn one_shot_page_audit(db: &Database, index_cols: &[(String, String)]) -> String {
    let mut o = Observer {
        prev: BTreeMap::new(),
        prev_keys: BTreeMap::new(),
        cache: None,
        index_cols: index_cols.iter().cloned().collect(),
    };
    o.step(db)
}

fn exec_sql(line: &str) -> String {
    let Some((head, body)) = line.split_once(" | ") else { return "bad-op".into() };
    let Some((ps, cache)) = parse_params(head, "sql") else { return "bad-op".into() };
    let mut ops = Vec::new();
    for part in body.split(" ; ") {
        match parse_qop(part) {
            Some(o) => ops.push(o),
            None => return "bad-op".into(),
        }
    }
    if ops.is_empty() || ops.len() > 3000 {
        return "bad-op".into();
    }
    let scratch = Scratch::new();
    let path = scratch.0.join("test.db");
    let cfg = DBConfig::builder().page_size(ps).cache_size(cache).pool_size(2).build();
    let mut db = match Database::create(&path, cfg) {
        Ok(db) => Some(db),
        Err(_) => return "create-failed".into(),
    };
    let mut sessions: BTreeMap<u32, axmosdb::tcp::session::Session> = BTreeMap::new();
    let mut obs = Observer { prev: BTreeMap::new(), prev_keys: BTreeMap::new(), cache: None, index_cols: BTreeMap::new() };
    for op in &ops {
        if let QOp::Auto(Stmt::CreateIndex(i, _, c)) | QOp::SStmt(_, Stmt::CreateIndex(i, _, c)) = op {
            obs.index_cols.insert(i.clone(), c.clone());
        }
    }
    let mut parts = Vec::new();
    install_worker_hook();
    let _ = take_worker_panic();
    let debug = std::env::var("AXH_DEBUG").is_ok();
    for (opi, op) in ops.iter().enumerate() {
        if debug {
            eprintln!("op{} {}", opi, show_qop(op));
        }
        let r: Result<(), String> = guard(|| {
            let dbr = db.as_ref().ok_or_else(|| "closed".to_string())?;
            match op {
                QOp::Auto(s) => dbr.execute(&s.sql()).map(|_| ()).map_err(|e| {
                    if debug {
                        eprintln!("  error: {}", e);
                    }
                    db_err_class(&e).to_string()
                }),
                QOp::SBegin(k) => match dbr.session() {
                    Ok(s) => {
                        sessions.insert(*k, s);
                        Ok(())
                    }
                    Err(e) => Err(db_err_class(&e).to_string()),
                },
                QOp::SStmt(k, s) => match sessions.get_mut(k) {
                    Some(sess) => sess.execute(&s.sql()).map(|_| ()).map_err(|e| {
                        if debug {
                            eprintln!("  error: {}", e);
                        }
                        "query".to_string()
                    }),
                    None => Err("nosession".into()),
                },
                QOp::SCommit(k) => match sessions.remove(k) {
                    Some(mut sess) => sess.commit_transaction().map_err(|_| "query".to_string()),
                    None => Err("nosession".into()),
                },
                QOp::SRollback(k) => match sessions.remove(k) {
                    Some(mut sess) => sess.abort_transaction().map_err(|_| "query".to_string()),
                    None => Err("nosession".into()),
                },
                QOp::Vacuum => dbr.vacuum().map(|_| ()).map_err(|e| db_err_class(&e).to_string()),
                QOp::Flush => dbr.flush().map_err(|e| db_err_class(&e).to_string()),
                QOp::Reopen => Ok(()),
            }
        });
        let mut r = r;
        if *op == QOp::Reopen && r.is_ok() {
            sessions.clear();
            db = None; // clean close: Drop flushes
            obs.cache = None;
            r = guard(|| match Database::open(&path, cfg) {
                Ok(d) => {
                    db = Some(d);
                    Ok(())
                }
                Err(e) => Err(db_err_class(&e).to_string()),
            });
        }
        let wp = take_worker_panic();
        let rs = match (&r, &wp) {
            (Err(e), _) if e.starts_with("PANIC@") => format!("P{}", &e[6..]),
            (_, Some(loc)) => format!("P{}", loc),
            (Ok(()), None) => "ok".to_string(),
            (Err(e), None) => format!("E{}", e),
        };
        let Some(dbr) = db.as_ref() else {
            parts.push(format!("r={} D=Eclosed", rs));
            break;
        };
        parts.push(format!("r={} {}", rs, obs.step(dbr)));
        let _ = take_worker_panic(); // the dump's own decoding attempts may panic (caught): not the database's
        if rs.starts_with('P') {
            break;
        }
    }
    sessions.clear();
    drop(db);
    format!("obs {}", parts.join(" ; "))
}

// ------------------------------------------------------------------------------------------------ generators

/// the generator's own idea of the allocator, used only to choose meaningful page ids
struct Sim {
    total: u64,
    free: VecDeque<u64>,
    used: Vec<(u64, bool)>,
}

fn gen_seq(rng: &mut Rng, n_ops: usize, flavour: &str) -> (String, Vec<String>) {
    let ps = *rng.pick(&[4096usize, 8192]);
    let cache = *rng.pick(&[64usize, 10000]);
    let mut sim = Sim { total: 1, free: VecDeque::new(), used: Vec::new() };
    let mut ops: Vec<SOp> = Vec::new();
    let mut tags: Vec<String> = vec!["seq".into(), flavour.to_string()];
    let mut tag = |t: &str, tags: &mut Vec<String>| {
        if !tags.iter().any(|x| x == t) {
            tags.push(t.to_string());
        }
    };
    // phase structure: grow, then churn
    for i in 0..n_ops {
        let want_alloc = if i < n_ops / 4 { 80 } else { 45 };
        let roll = rng.below(100);
        if roll < want_alloc || sim.used.is_empty() {
            let k = rng.chance(1, 3);
            ops.push(SOp::Alloc(k));
            let p = match sim.free.pop_front() {
                Some(p) => {
                    tag("reuse", &mut tags);
                    p
                }
                None => {
                    tag("grow", &mut tags);
                    sim.total += 1;
                    sim.total - 1
                }
            };
            sim.used.push((p, k));
        } else if roll < want_alloc + 38 {
            let i = rng.below(sim.used.len() as u64) as usize;
            let (p, k) = sim.used.swap_remove(i);
            // the type parameter normally matches the page; sometimes not (irrelevant while the page is cached)
            let kk = if rng.chance(1, 10) { !k } else { k };
            ops.push(SOp::Dealloc(p, kk));
            sim.free.push_back(p);
            tag("dealloc", &mut tags);
        } else if roll < want_alloc + 43 {
            let ov: Vec<u64> = sim.used.iter().filter(|x| x.1).map(|x| x.0).collect();
            if ov.len() >= 2 && flavour != "plain" {
                let p = *rng.pick(&ov);
                let q = if rng.chance(1, 4) { 0 } else { *rng.pick(&ov) };
                ops.push(SOp::Link(p, q));
                tag("link", &mut tags);
            } else {
                ops.push(SOp::Alloc(true));
                let p = sim.free.pop_front().unwrap_or_else(|| {
                    sim.total += 1;
                    sim.total - 1
                });
                sim.used.push((p, true));
            }
        } else if roll < want_alloc + 46 {
            ops.push(SOp::Flush);
            tag("flush", &mut tags);
        } else if roll < want_alloc + 48 {
            ops.push(SOp::Reopen);
            tag("reopen", &mut tags);
        } else if roll < want_alloc + 50 {
            ops.push(SOp::Dealloc(0, rng.chance(1, 2)));
            tag("d0", &mut tags);
        } else if flavour == "dfree" && !sim.free.is_empty() {
            // contract violation: give back a page that is already free
            let i = rng.below(sim.free.len() as u64) as usize;
            let p = sim.free[i];
            ops.push(SOp::Dealloc(p, true));
            tag("double-free", &mut tags);
        } else {
            ops.push(SOp::Alloc(false));
            let p = sim.free.pop_front().unwrap_or_else(|| {
                sim.total += 1;
                sim.total - 1
            });
            sim.used.push((p, false));
        }
    }
    if ops.len() >= 10 {
        tags.push("nt".into());
    }
    (format!("seq {} {} | {}", ps, cache, ops.iter().map(show_sop).collect::<Vec<_>>().join(" ; ")), tags)
}

#[derive(Clone)]
struct TableSim {
    name: String,
    /// rows deleted since the last VACUUM (their cells are still in the leaf)
    dead: usize,
    /// (id, updates since the last VACUUM)
    rows: Vec<(u64, u32)>,
    next_id: u64,
    indexes: Vec<String>,
}

/// What a family of SQL histories may contain. Exactly one *region* per history:
///   clean     rows of at most 64 bytes, at most 2 tables and 1 index alive, VACUUM at least every ~14 row operations (the catalog
///             row of a table gains one version per INSERT; un-vacuumed it outgrows a third of a page after ~30 inserts and gets an
///             overflow chain of its own), a row is updated at most twice between two VACUUMs. Family `ovf`: rows up to 6 pages in
///             tables that hold at most 2 cells (overflow chains, never a divider). Family `ddlrb`: CREATE / DROP inside sessions
///             that are rolled back. No known finding applies: any failure is a violation.
///   bigcell   rows from 10 bytes to several pages (overflow chains in user tables; KF-C11-divider-shares-chain and its damage)
///   bigcat    small rows, but many relations / long stretches without VACUUM: the *catalog* rows overflow (same findings)
struct Plan {
    region: &'static str,
    family: &'static str,
    big_rows: bool,
    max_tables: usize,
    max_indexes: usize,
    vacuum_every: Option<usize>,
    burst: usize,
    sessions: bool,
    ddl_in_sessions: bool,
    rollback_num: u64,
    ddl: bool,
    reopen: bool,
    churn: bool,
    /// at most this many cells (live + dead rows) per table: with 2, a table never leaves its root page, so large rows get
    /// overflow chains but no divider ever exists (family `ovf`)
    max_cells: Option<usize>,
}

fn plan_for(region: &'static str, family: &'static str) -> Plan {
    let mut p = Plan {
        region,
        family,
        big_rows: false,
        max_tables: 2,
        max_indexes: 1,
        vacuum_every: Some(8),
        burst: 6,
        sessions: false,
        ddl_in_sessions: false,
        rollback_num: 1,
        ddl: false,
        reopen: false,
        churn: false,
        max_cells: None,
    };
    match family {
        "plain" => {}
        "ovf" => {
            p.big_rows = true;
            p.max_cells = Some(2);
            p.max_indexes = 0; // an index keeps entries of dead rows and would split
            p.vacuum_every = Some(3);
            p.burst = 2;
            p.ddl = true;
            p.reopen = true;
        }
        "rollback" => {
            p.sessions = true;
            p.rollback_num = 3;
        }
        "ddl" => p.ddl = true,
        "reopen" => p.reopen = true,
        "churn" => p.churn = true,
        _ => {
            p.sessions = true;
            p.ddl = true;
            p.reopen = true;
            p.churn = true;
        }
    }
    if family == "ddlrb" {
        p.sessions = true;
        p.ddl_in_sessions = true;
        p.ddl = true;
        p.rollback_num = 3;
    }
    match region {
        "bigcell" => {
            p.big_rows = true;
            p.max_tables = 3;
            p.max_indexes = 2;
            p.vacuum_every = Some(40);
            p.burst = 20;
        }
        "bigcat" => {
            p.max_tables = 5;
            p.max_indexes = 4;
            p.vacuum_every = None;
            p.burst = 25;
            p.ddl = true;
        }
        _ => {}
    }
    p
}

fn pick_len(rng: &mut Rng, ps: usize, big: bool) -> usize {
    if !big {
        return *rng.pick(&[10usize, 24, 40, 64]);
    }
    match rng.below(10) {
        0..=2 => rng.range(10, 200) as usize,
        3..=4 => rng.range(200, (ps / 3) as i64) as usize,
        5..=6 => rng.range((ps / 3) as i64, ps as i64) as usize,
        7..=8 => rng.range(ps as i64, 3 * ps as i64) as usize,
        _ => rng.range(3 * ps as i64, 6 * ps as i64) as usize,
    }
}

fn gen_sql(rng: &mut Rng, n_ops: usize, plan: &Plan) -> (String, Vec<String>) {
    let ps = *rng.pick(&[4096usize, 8192]);
    let cache = *rng.pick(&[64usize, 10000]);
    let mut tags: Vec<String> = vec!["sql".into(), plan.region.to_string(), format!("f-{}", plan.family)];
    tags.push(format!("ps{}", ps));
    tags.push(format!("cache{}", cache));
    fn tag(t: &str, tags: &mut Vec<String>) {
        if !tags.iter().any(|x| x == t) {
            tags.push(t.to_string());
        }
    }
    let mut ops: Vec<QOp> = Vec::new();
    let mut tables: Vec<TableSim> = Vec::new();
    let mut tcount = 0u32;
    let mut icount = 0u32;
    let mut open: Option<(u32, Vec<TableSim>, usize)> = None; // session id, tables at BEGIN, statements so far
    let mut sess_n = 0u32;
    let mut since_vac = 0usize;
    fn push(ops: &mut Vec<QOp>, open: &mut Option<(u32, Vec<TableSim>, usize)>, s: Stmt) {
        match open {
            Some((k, _, n)) => {
                *n += 1;
                ops.push(QOp::SStmt(*k, s))
            }
            None => ops.push(QOp::Auto(s)),
        }
    }
    tcount += 1;
    tables.push(TableSim { name: format!("t{}", tcount), dead: 0, rows: Vec::new(), next_id: 1, indexes: Vec::new() });
    ops.push(QOp::Auto(Stmt::CreateTable(format!("t{}", tcount))));
    while ops.len() < n_ops {
        // VACUUM keeps the catalog rows (one version per INSERT) and the updated rows small
        if let (Some(every), None) = (plan.vacuum_every, &open) {
            if since_vac >= every {
                ops.push(QOp::Vacuum);
                tag("vacuum", &mut tags);
                since_vac = 0;
                for t in tables.iter_mut() {
                    t.dead = 0;
                    for r in t.rows.iter_mut() {
                        r.1 = 0;
                    }
                }
                continue;
            }
        }
        let roll = rng.below(100);
        if plan.sessions && open.is_none() && roll < 8 {
            sess_n = (sess_n % 9) + 1;
            open = Some((sess_n, tables.clone(), 0));
            ops.push(QOp::SBegin(sess_n));
            tag("session", &mut tags);
            continue;
        }
        if let Some((k, saved, n)) = &open {
            if roll < 18 || *n >= 6 {
                if rng.below(4) < plan.rollback_num {
                    ops.push(QOp::SRollback(*k));
                    tag("rollback", &mut tags);
                    tables = saved.clone();
                } else {
                    ops.push(QOp::SCommit(*k));
                    tag("commit", &mut tags);
                }
                open = None;
                continue;
            }
        }
        let ddl_ok = plan.ddl && (open.is_none() || plan.ddl_in_sessions);
        let n_idx: usize = tables.iter().map(|t| t.indexes.len()).sum();
        if tables.is_empty() || (ddl_ok && (18..22).contains(&roll) && tables.len() < plan.max_tables) {
            tcount += 1;
            let name = format!("t{}", tcount);
            tables.push(TableSim { name: name.clone(), dead: 0, rows: Vec::new(), next_id: 1, indexes: Vec::new() });
            if open.is_some() {
                tag("ddl-in-session", &mut tags);
            }
            push(&mut ops, &mut open, Stmt::CreateTable(name));
            tag("create", &mut tags);
            continue;
        }
        let ti = rng.below(tables.len() as u64) as usize;
        if ddl_ok && (22..26).contains(&roll) {
            // DROP TABLE; CASCADE when it has indexes (a plain DROP TABLE leaves them in the catalog; DROP INDEX does not parse)
            let t = tables.swap_remove(ti);
            if open.is_some() {
                tag("ddl-in-session", &mut tags);
            }
            if t.indexes.is_empty() {
                push(&mut ops, &mut open, Stmt::DropTable(t.name));
            } else if plan.region == "bigcat" && rng.chance(1, 3) {
                push(&mut ops, &mut open, Stmt::DropTable(t.name));
                tag("orphan-index", &mut tags);
            } else {
                push(&mut ops, &mut open, Stmt::DropTableCascade(t.name));
                tag("drop-cascade", &mut tags);
            }
            tag("drop", &mut tags);
            continue;
        }
        if ddl_ok && (26..31).contains(&roll) && n_idx < plan.max_indexes && tables[ti].indexes.is_empty() {
            icount += 1;
            let name = format!("i{}", icount);
            let col = if plan.big_rows && rng.chance(1, 3) { "v" } else { "k" };
            tables[ti].indexes.push(name.clone());
            if open.is_some() {
                tag("ddl-in-session", &mut tags);
            }
            push(&mut ops, &mut open, Stmt::CreateIndex(name, tables[ti].name.clone(), col.into()));
            tag("index", &mut tags);
            if col == "v" {
                tag("index-v", &mut tags);
            }
            continue;
        }
        if plan.reopen && (33..36).contains(&roll) && open.is_none() {
            ops.push(QOp::Reopen);
            tag("reopen", &mut tags);
            continue;
        }
        if (36..38).contains(&roll) && open.is_none() {
            ops.push(QOp::Flush);
            tag("flush", &mut tags);
            continue;
        }
        // row operations
        let t = &mut tables[ti];
        let d = rng.below(100);
        let full = plan.max_cells.map(|m| t.rows.len() + t.dead >= m).unwrap_or(false);
        if full && t.rows.is_empty() {
            // only dead cells left: VACUUM makes room
            if open.is_none() {
                since_vac = usize::MAX / 2;
            }
            continue;
        }
        let want_delete = (plan.churn && t.rows.len() > 40) || (full && d < 50);
        let d = if full && d < 55 { 60 } else { d };
        if t.rows.is_empty() || (d < 55 && !want_delete) {
            let room = plan.max_cells.map(|m| m - (t.rows.len() + t.dead)).unwrap_or(usize::MAX);
            let burst = if rng.chance(1, 3) { rng.range(2, plan.burst as i64) as usize } else { 1 }.min(room);
            for _ in 0..burst {
                let id = t.next_id;
                t.next_id += 1;
                t.rows.push((id, 0));
                let len = pick_len(rng, ps, plan.big_rows);
                if len > ps / 4 {
                    tag("overflow-row", &mut tags);
                }
                since_vac += 1;
                push(&mut ops, &mut open, Stmt::Insert(t.name.clone(), id, len));
            }
            tag("insert", &mut tags);
        } else if d < 75 && !want_delete {
            // a row is updated at most twice between two VACUUMs unless rows may be large anyway
            let cands: Vec<usize> =
                (0..t.rows.len()).filter(|i| plan.big_rows || plan.vacuum_every.is_none() || t.rows[*i].1 < 2).collect();
            if cands.is_empty() {
                continue;
            }
            let i = *rng.pick(&cands);
            t.rows[i].1 += 1;
            let id = t.rows[i].0;
            let len = pick_len(rng, ps, plan.big_rows);
            since_vac += 1;
            push(&mut ops, &mut open, Stmt::Update(t.name.clone(), id, len));
            tag("update", &mut tags);
        } else if d < 90 && !want_delete {
            let i = rng.below(t.rows.len() as u64) as usize;
            let id = t.rows.swap_remove(i).0;
            t.dead += 1;
            since_vac += 1;
            push(&mut ops, &mut open, Stmt::Delete(t.name.clone(), id));
            tag("delete", &mut tags);
        } else {
            let lo = rng.pick(&t.rows).0;
            let hi = lo + if want_delete { rng.range(20, 60) } else { rng.range(2, 12) } as u64;
            let before = t.rows.len();
            t.rows.retain(|x| x.0 < lo || x.0 >= hi);
            t.dead += before - t.rows.len();
            since_vac += 2;
            push(&mut ops, &mut open, Stmt::DeleteRange(t.name.clone(), lo, hi));
            tag("delete-range", &mut tags);
        }
    }
    if let Some((k, _, _)) = open {
        ops.push(if rng.below(4) < plan.rollback_num { QOp::SRollback(k) } else { QOp::SCommit(k) });
    }
    // every history ends with VACUUM (dead rows are removed physically: their pages must come back) and a reopen
    ops.push(QOp::Vacuum);
    ops.push(QOp::Reopen);
    if ops.len() >= 10 {
        tags.push("nt".into());
    }
    (format!("sql {} {} | {}", ps, cache, ops.iter().map(show_qop).collect::<Vec<_>>().join(" ; ")), tags)
}

impl Engine for PagerEngine {
    fn timeout_ms(&self) -> u64 {
        60_000
    }

    fn exec(&mut self, line: &str) -> String {
        let _quiet = QuietStdout::new();
        if line.starts_with("seq ") {
            exec_seq(line)
        } else if line.starts_with("sql ") {
            exec_sql(line)
        } else if let Some(ps) = line.strip_prefix("iter ") {
            // regression check of KF-C11-iterator-repeats-error: the iterator must end after it has reported an error
            match ps.parse::<usize>() {
                Ok(ps) if ps == 4096 || ps == 8192 => {
                    let scratch = Scratch::new();
                    match guard(|| iterator_after_error(&scratch.0, ps)) {
                        Ok(s) => format!("obs {}", s),
                        Err(e) => format!("obs E{}", e),
                    }
                }
                _ => "bad-op".into(),
            }
        } else {
            "bad-op".into()
        }
    }

    fn gen_cases(&self, rng: &mut Rng, tier: Tier) -> Vec<Case> {
        let mut out = Vec::new();
        let (n_seq, n_sql, scale) = if tier == Tier::Quick { (100, 77, 1) } else { (1000, 770, 2) };
        let mut r1 = rng.fork("seq");
        for i in 0..n_seq {
            let flavour = match i % 10 {
                0..=5 => "plain",
                6..=7 => "links",
                _ => "dfree",
            };
            let n_ops = match i % 4 {
                0 => r1.range(3, 12),
                1 | 2 => r1.range(20, 80),
                _ => r1.range(100, 300),
            } as usize;
            let (line, tags) = gen_seq(&mut r1, n_ops, flavour);
            let t: Vec<&str> = tags.iter().map(|s| s.as_str()).collect();
            out.push(Case::new(line, &t));
        }
        out.push(Case::new("iter 4096".into(), &["iter", "nt"]));
        out.push(Case::new("iter 8192".into(), &["iter", "nt"]));
        let mut r2 = rng.fork("sql");
        let families = ["plain", "rollback", "ddl", "reopen", "churn", "mixed", "ovf"];
        for i in 0..n_sql {
            // region split: 8 of every 11 histories are clean, then bigcell, bigcat, ddlrb (one region feature each)
            let region = match i % 11 {
                8 => "bigcell",
                9 => "bigcat",
                _ => "clean",
            };
            // family `ovf` (large rows in tables that never split) exists only in the clean region; every 11th history is of
            // family `ddlrb` (CREATE / DROP inside sessions that are rolled back)
            let mut family = families[(i / 11 + i % 11) % families.len()];
            if family == "ovf" && region != "clean" {
                family = "mixed";
            }
            if i % 11 == 10 {
                family = "ddlrb";
            }
            let plan = plan_for(region, family);
            let n_ops = match i % 3 {
                0 => r2.range(40, 120),
                1 => r2.range(150, 350),
                _ => r2.range(400, 700),
            } as usize
                * scale;
            let (line, tags) = gen_sql(&mut r2, n_ops, &plan);
            let t: Vec<&str> = tags.iter().map(|s| s.as_str()).collect();
            out.push(Case::new(line, &t));
        }
        out
    }
}
