//! Engine `tuple` (C18): the real tuple codec (`TupleBuilder`, `Tuple::add_version_with`, `Tuple::delete`,
//! `TupleReader::parse_for_snapshot`, `Tuple::vaccum_with`) and `Snapshot` against the Lean model.
//!
//! One case = one operation sequence on one row:  `t op ; op ; …`
//!   b <nkeys> <types> <xmin> <row>       build (types: one letter per column, b i I u U f d t; row: comma list of
//!                                        `n` (NULL) or `x<hex payload>`: little-endian bytes / blob content)
//!   u <xid> <idx=val,…|->                add_version_with(modified, new_xmin = xid)
//!   U <xid> <idx=val,…|->                the same, and the new version is stamped with its creator: header xmin := xid
//!                                        (scaffolding that stands in for the writer `add_version_with` was meant to be,
//!                                        so that chains with several creators reach the readers and the vacuum)
//!   x <xid>                              overwrite the header xmin
//!   d <xid>                              delete (an existing delete mark is overwritten)
//!   v <horizon>                          vaccum_with
//!   p                                    reload the tuple from its padded (`full_data`) form, as the log stores it
//!   l                                    decode the newest version
//!   r <xid> <xmin> <xmax|-> <active|-> <aborted|->     decode for that snapshot
//!   c <xid> <xmin> <xmax|-> <active|-> <aborted|-> <ids>   is_committed_before_snapshot for each id
//!   i <xid> <xmin> <xmax|-> <active|-> <aborted|-> <tmin> <tmax|->   Snapshot::is_tuple_visible (unused by the readers)
//! Output: one field per op, joined by ` | `.
use super::{Case, Engine, Tier};
use crate::rng::Rng;
use crate::util::{hex, unhex};
use axmosdb::types::bool::Bool;
use axmosdb::types::{Blob, DataType, DataTypeKind, Float32, Float64, Int32, Int64, UInt32, UInt64};
use axmosdb::verif::tuple as vt;
use std::collections::HashMap;
use std::panic::{AssertUnwindSafe, catch_unwind};

pub struct TupleEngine;

const LETTERS: &[(char, DataTypeKind, usize)] = &[
    ('b', DataTypeKind::Bool, 1),
    ('i', DataTypeKind::Int, 4),
    ('I', DataTypeKind::BigInt, 8),
    ('u', DataTypeKind::UInt, 4),
    ('U', DataTypeKind::BigUInt, 8),
    ('f', DataTypeKind::Float, 4),
    ('d', DataTypeKind::Double, 8),
    ('t', DataTypeKind::Blob, 0),
];

fn kind_of(c: char) -> Option<(DataTypeKind, usize)> {
    LETTERS.iter().find(|l| l.0 == c).map(|l| (l.1, l.2))
}

/// `n` → NULL, `x<hex>` → a value of the column's kind. None = malformed.
fn parse_val(kind: DataTypeKind, w: &str) -> Option<DataType> {
    if w == "n" {
        return Some(DataType::Null);
    }
    let h = w.strip_prefix('x')?;
    let b = if h.is_empty() { vec![] } else { unhex(h)? };
    Some(match kind {
        DataTypeKind::Bool => {
            if b.len() != 1 || b[0] > 1 {
                return None;
            }
            DataType::Bool(Bool(b[0] == 1))
        }
        DataTypeKind::Int => DataType::Int(Int32(i32::from_le_bytes(b.try_into().ok()?))),
        DataTypeKind::BigInt => DataType::BigInt(Int64(i64::from_le_bytes(b.try_into().ok()?))),
        DataTypeKind::UInt => DataType::UInt(UInt32(u32::from_le_bytes(b.try_into().ok()?))),
        DataTypeKind::BigUInt => DataType::BigUInt(UInt64(u64::from_le_bytes(b.try_into().ok()?))),
        DataTypeKind::Float => DataType::Float(Float32(f32::from_bits(u32::from_le_bytes(b.try_into().ok()?)))),
        DataTypeKind::Double => DataType::Double(Float64(f64::from_bits(u64::from_le_bytes(b.try_into().ok()?)))),
        DataTypeKind::Blob => DataType::Blob(Blob::from_unencoded_slice(&b)),
        _ => return None,
    })
}

fn show_val(v: &DataType) -> String {
    match v {
        DataType::Null => "n".into(),
        DataType::Bool(b) => format!("x{:02x}", b.0 as u8),
        DataType::Int(x) => format!("x{}", hex(&x.0.to_le_bytes())),
        DataType::BigInt(x) => format!("x{}", hex(&x.0.to_le_bytes())),
        DataType::UInt(x) => format!("x{}", hex(&x.0.to_le_bytes())),
        DataType::BigUInt(x) => format!("x{}", hex(&x.0.to_le_bytes())),
        DataType::Float(x) => format!("x{}", hex(&x.0.to_bits().to_le_bytes())),
        DataType::Double(x) => format!("x{}", hex(&x.0.to_bits().to_le_bytes())),
        DataType::Blob(b) => match b.data() {
            Ok(d) => format!("x{}", hex(d)),
            Err(_) => "?".into(),
        },
    }
}

fn show_row(r: &[DataType]) -> String {
    let v: Vec<String> = r.iter().map(show_val).collect();
    format!("row {}", v.join(","))
}

fn parse_u64(w: &str) -> Option<u64> {
    if w.is_empty() || w.len() > 20 || !w.bytes().all(|b| b.is_ascii_digit()) {
        return None;
    }
    w.parse().ok()
}

fn parse_ids(w: &str) -> Option<Vec<u64>> {
    if w == "-" {
        return Some(vec![]);
    }
    w.split(',').map(parse_u64).collect()
}

fn parse_snapshot(ws: &[&str]) -> Option<vt::VSnapshot> {
    if ws.len() != 5 {
        return None;
    }
    let xid = parse_u64(ws[0])?;
    let xmin = parse_u64(ws[1])?;
    let xmax = if ws[2] == "-" { None } else { Some(parse_u64(ws[2])?) };
    let active = parse_ids(ws[3])?;
    let aborted = parse_ids(ws[4])?;
    Some(vt::snapshot(xid, xmin, xmax, &active, &aborted))
}

struct St {
    kinds: Vec<DataTypeKind>,
    nkeys: usize,
    schema: vt::VSchema,
    tuple: Option<vt::VTuple>,
}

enum Op {
    Build(usize, Vec<DataTypeKind>, u64, Vec<DataType>),
    Update(u64, Vec<(usize, String)>, bool),
    Stamp(u64),
    Delete(u64),
    Vacuum(u64),
    Pad,
    Last,
    Read(vt::VSnapshot),
    Committed(vt::VSnapshot, Vec<u64>),
    TupleVisible(vt::VSnapshot, u64, Option<u64>),
}

fn parse_op(s: &str) -> Option<Op> {
    let ws: Vec<&str> = s.split(' ').filter(|w| !w.is_empty()).collect();
    Some(match ws.as_slice() {
        ["b", nk, types, x0, row] => {
            let nk: usize = parse_u64(nk)? as usize;
            let kinds: Option<Vec<(DataTypeKind, usize)>> = types.chars().map(kind_of).collect();
            let kinds = kinds?;
            if nk == 0 || nk > kinds.len() || kinds.len() > 255 {
                return None;
            }
            let x0 = parse_u64(x0)?;
            let cells: Vec<&str> = row.split(',').collect();
            if cells.len() != kinds.len() {
                return None;
            }
            let vals: Option<Vec<DataType>> = cells.iter().zip(&kinds).map(|(c, k)| parse_val(k.0, c)).collect();
            Op::Build(nk, kinds.iter().map(|k| k.0).collect(), x0, vals?)
        }
        [op @ ("u" | "U"), xid, mods] => {
            let xid = parse_u64(xid)?;
            let mut out = Vec::new();
            if *mods != "-" {
                for m in mods.split(',') {
                    let (i, v) = m.split_once('=')?;
                    let i = parse_u64(i)? as usize;
                    if i > 255 || out.iter().any(|(j, _)| *j == i) {
                        return None;
                    }
                    out.push((i, v.to_string()));
                }
            }
            Op::Update(xid, out, *op == "U")
        }
        ["x", xid] => Op::Stamp(parse_u64(xid)?),
        ["d", xid] => Op::Delete(parse_u64(xid)?),
        ["v", h] => Op::Vacuum(parse_u64(h)?),
        ["p"] => Op::Pad,
        ["l"] => Op::Last,
        ["r", rest @ ..] => Op::Read(parse_snapshot(rest)?),
        ["c", a, b, c, d, e, ids] => {
            let ids = parse_ids(ids)?;
            if ids.is_empty() {
                return None;
            }
            Op::Committed(parse_snapshot(&[a, b, c, d, e])?, ids)
        }
        ["i", a, b, c, d, e, tmin, tmax] => {
            let tmax = if *tmax == "-" { None } else { Some(parse_u64(tmax)?) };
            Op::TupleVisible(parse_snapshot(&[a, b, c, d, e])?, parse_u64(tmin)?, tmax)
        }
        _ => return None,
    })
}

/// `ok <len> <xmin> <xmax|-> <version> #<bytes>`; `#…` words are moved behind ` ## ` (non-gating) at the end
fn show_state(t: &vt::VTuple) -> String {
    let (xmin, xmax, ver) = t.header();
    let b = t.bytes();
    format!(
        "ok {} {} {} {} #{}",
        b.len(),
        xmin,
        xmax.map(|x| x.to_string()).unwrap_or_else(|| "-".into()),
        ver,
        hex(&b)
    )
}

fn guarded<T>(f: impl FnOnce() -> Result<T, vt::VTupleError>) -> Result<T, &'static str> {
    match catch_unwind(AssertUnwindSafe(f)) {
        Ok(Ok(v)) => Ok(v),
        Ok(Err(_)) => Err("err"),
        Err(p) => {
            if std::env::var("AXH_TUPLE_DEBUG").is_ok() {
                let msg = p.downcast_ref::<String>().cloned().or_else(|| p.downcast_ref::<&str>().map(|s| s.to_string()));
                eprintln!("panic payload: {:?}", msg);
            }
            Err("panic")
        }
    }
}

impl Engine for TupleEngine {
    fn exec(&mut self, line: &str) -> String {
        let Some(body) = line.trim().strip_prefix("t ") else {
            return "bad-op".into();
        };
        let mut ops = Vec::new();
        for s in body.split(" ; ") {
            match parse_op(s) {
                Some(op) => ops.push(op),
                None => return "bad-op".into(),
            }
        }
        // the values of an update are typed by the schema of the build that precedes it
        let mut st: Option<St> = None;
        let mut out: Vec<String> = Vec::new();
        for op in ops {
            if let Op::Build(nk, kinds, x0, vals) = op {
                let schema = vt::schema(&kinds, nk);
                let tuple = guarded(|| vt::build(&schema, vals, x0));
                out.push(match &tuple {
                    Ok(t) => show_state(t),
                    Err(e) => e.to_string(),
                });
                st = Some(St { kinds, nkeys: nk, schema, tuple: tuple.ok() });
                continue;
            }
            if let Op::Committed(s, ids) = &op {
                let v: Vec<&str> = ids.iter().map(|i| if s.is_committed_before(*i) { "1" } else { "0" }).collect();
                out.push(format!("cb {}", v.join("")));
                continue;
            }
            if let Op::TupleVisible(s, tmin, tmax) = &op {
                out.push(format!("vis {}", if s.is_tuple_visible(*tmin, *tmax) { 1 } else { 0 }));
                continue;
            }
            let Some(state) = st.as_mut() else {
                out.push("nostate".into());
                continue;
            };
            let Some(tuple) = state.tuple.as_mut() else {
                out.push("nostate".into());
                continue;
            };
            match op {
                Op::Update(xid, mods, stamped) => {
                    let nvals = state.kinds.len() - state.nkeys;
                    let mut m: HashMap<usize, DataType> = HashMap::new();
                    let mut bad = false;
                    for (i, v) in &mods {
                        // an index outside the schema can only carry NULL: the code must refuse it
                        if *i >= nvals {
                            if v != "n" {
                                bad = true;
                            }
                            m.insert(*i, DataType::Null);
                            continue;
                        }
                        match parse_val(state.kinds[state.nkeys + *i], v) {
                            Some(d) => {
                                m.insert(*i, d);
                            }
                            None => bad = true,
                        }
                    }
                    if bad {
                        return "bad-op".into();
                    }
                    let schema = &state.schema;
                    match guarded(|| tuple.add_version(schema, &m, xid)) {
                        Ok(()) => {
                            if stamped && !m.is_empty() {
                                tuple.set_header_xmin(xid);
                            }
                            out.push(show_state(tuple))
                        }
                        Err(e) => out.push(e.into()),
                    }
                }
                Op::Stamp(xid) => {
                    tuple.set_header_xmin(xid);
                    out.push(show_state(tuple));
                }
                Op::Delete(xid) => match guarded(|| tuple.delete(xid)) {
                    Ok(()) => out.push(show_state(tuple)),
                    Err(e) => out.push(e.into()),
                },
                Op::Vacuum(h) => {
                    let schema = &state.schema;
                    match guarded(|| tuple.vacuum(schema, h)) {
                        Ok(freed) => out.push(format!("freed {} {}", freed, show_state(tuple))),
                        Err(e) => out.push(e.into()),
                    }
                }
                Op::Pad => {
                    let full = tuple.full_bytes();
                    match guarded(|| vt::VTuple::from_bytes(&full)) {
                        Ok(t) => {
                            *tuple = t;
                            out.push(show_state(tuple));
                        }
                        Err(e) => out.push(e.into()),
                    }
                }
                Op::Last => {
                    let schema = &state.schema;
                    match guarded(|| tuple.read_last(schema)) {
                        Ok(r) => out.push(show_row(&r)),
                        Err(e) => out.push(e.into()),
                    }
                }
                Op::Read(s) => {
                    let schema = &state.schema;
                    match guarded(|| tuple.read_for(schema, &s)) {
                        Ok(Some(r)) => out.push(show_row(&r)),
                        Ok(None) => out.push("none".into()),
                        Err(e) => out.push(e.into()),
                    }
                }
                Op::Build(..) | Op::Committed(..) | Op::TupleVisible(..) => unreachable!(),
            }
        }
        let gating: Vec<String> = out
            .iter()
            .map(|o| o.split(' ').filter(|w| !w.starts_with('#')).collect::<Vec<_>>().join(" "))
            .collect();
        let diag: Vec<String> = out
            .iter()
            .map(|o| o.split(' ').filter(|w| w.starts_with('#')).collect::<Vec<_>>().join(" "))
            .collect();
        format!("{} ## {}", gating.join(" | "), diag.join(" "))
    }

    fn gen_cases(&self, rng: &mut Rng, tier: Tier) -> Vec<Case> {
        casegen::gen_cases(rng, tier)
    }
}

mod casegen {
    use super::*;

    #[derive(Clone, Copy, PartialEq, Eq)]
    enum Cs {
        Before,
        Future,
        Active,
        Aborted,
        Own,
    }
    const STATES: [Cs; 5] = [Cs::Before, Cs::Future, Cs::Active, Cs::Aborted, Cs::Own];

    fn hexle(v: u64, n: usize) -> String {
        format!("x{}", hex(&v.to_le_bytes()[..n]))
    }

    /// a non-null value of the kind; `small` = the 4-element grid of the property text
    fn gen_val(rng: &mut Rng, k: char, small: bool) -> String {
        match k {
            'b' => format!("x{:02x}", rng.below(2)),
            'i' | 'u' | 'f' => {
                let v = match rng.below(if small { 3 } else { 6 }) {
                    0 => 0,
                    1 => 1,
                    2 => 0xffff_ffff,
                    3 => 0x7fc0_0001, // a NaN payload when read as f32
                    4 => 0x8000_0000,
                    _ => rng.next_u64() & 0xffff_ffff,
                };
                hexle(v, 4)
            }
            'I' | 'U' | 'd' => {
                let v = match rng.below(if small { 3 } else { 6 }) {
                    0 => 0,
                    1 => 2,
                    2 => u64::MAX,
                    3 => 0x7ff8_0000_0000_0001, // NaN payload as f64
                    4 => 1 << 63,
                    _ => rng.next_u64(),
                };
                hexle(v, 8)
            }
            _ => {
                let n = if small {
                    *rng.pick(&[0usize, 1, 9])
                } else {
                    match rng.below(10) {
                        0 => 0,
                        1 => 1,
                        2 => 9,
                        3 => 63,
                        4 => 64, // first length whose zig-zag varint needs two bytes
                        5 => 200 + rng.below(300) as usize,
                        6 => {
                            if rng.chance(1, 8) {
                                8191 + rng.below(3) as usize // around the three-byte varint
                            } else {
                                7
                            }
                        }
                        _ => rng.below(40) as usize,
                    }
                };
                let b: Vec<u8> = (0..n).map(|_| b'a' + rng.below(26) as u8).collect();
                format!("x{}", hex(&b))
            }
        }
    }

    fn gen_cell(rng: &mut Rng, k: char, small: bool, null_pct: u64) -> String {
        if rng.chance(null_pct, 100) { "n".into() } else { gen_val(rng, k, small) }
    }

    /// snapshot text `xid xmin xmax active aborted` realising the wanted state of every writer as far as one
    /// snapshot can (a "committed before" id above a "future" id is itself in the future)
    fn snapshot_for(rng: &mut Rng, assign: &[(u64, Cs)], xmax_none: bool) -> String {
        let maxid = assign.iter().map(|a| a.0).max().unwrap_or(1);
        let xid = assign.iter().find(|a| a.1 == Cs::Own).map(|a| a.0).unwrap_or(maxid + 1 + rng.below(3));
        let fut_min = assign.iter().filter(|a| a.1 == Cs::Future).map(|a| a.0).min();
        let xmax = match fut_min {
            Some(f) => f.saturating_sub(1),
            None => maxid.max(xid) + rng.below(3),
        };
        let mut active: Vec<u64> = assign.iter().filter(|a| a.1 == Cs::Active).map(|a| a.0).collect();
        let mut aborted: Vec<u64> = assign.iter().filter(|a| a.1 == Cs::Aborted).map(|a| a.0).collect();
        if rng.chance(1, 4) {
            active.push(maxid + 7);
        }
        if rng.chance(1, 6) {
            aborted.push(maxid + 9);
        }
        let xmin = active.iter().copied().chain([xid]).min().unwrap();
        let ids = |v: &[u64]| {
            if v.is_empty() { "-".to_string() } else { v.iter().map(|x| x.to_string()).collect::<Vec<_>>().join(",") }
        };
        let xm = if xmax_none { "-".to_string() } else { xmax.to_string() };
        format!("{} {} {} {} {}", xid, xmin, xm, ids(&active), ids(&aborted))
    }

    fn random_snapshot(rng: &mut Rng, writers: &[u64], xmax_none: bool) -> String {
        let mut own_used = false;
        let assign: Vec<(u64, Cs)> = writers
            .iter()
            .map(|w| {
                let mut st = *rng.pick(&STATES);
                if st == Cs::Own {
                    if own_used {
                        st = Cs::Before;
                    }
                    own_used = true;
                }
                (*w, st)
            })
            .collect();
        snapshot_for(rng, &assign, xmax_none)
    }

    /// every assignment of the five states to the writers (at most one `Own`), capped by sampling
    fn all_snapshots(rng: &mut Rng, writers: &[u64], cap: usize) -> Vec<String> {
        let w = writers.len();
        let total = 5usize.pow(w as u32);
        let mut out = Vec::new();
        let mut codes: Vec<usize> = (0..total).collect();
        if total > cap {
            rng.shuffle(&mut codes);
            codes.truncate(cap);
        }
        for mut code in codes {
            let mut assign = Vec::new();
            let mut owns = 0;
            for wr in writers {
                let st = STATES[code % 5];
                code /= 5;
                if st == Cs::Own {
                    owns += 1;
                }
                assign.push((*wr, st));
            }
            if owns > 1 {
                continue;
            }
            out.push(snapshot_for(rng, &assign, false));
        }
        out
    }

    struct Shape {
        max_keys: u64,
        max_vals: u64,
        max_updates: u64,
        alphabet: &'static [char],
        small_values: bool,
    }

    /// one chain: build, updates (stamped = the writer records its id, raw = the shipped `add_version_with` alone),
    /// optional delete, optional vacuum, reads for many snapshots
    fn gen_chain(rng: &mut Rng, sh: &Shape, family: &'static str) -> Case {
        let mut tags: Vec<&str> = vec![family];
        let nk = 1 + rng.below(sh.max_keys) as usize;
        let nv = rng.below(sh.max_vals + 1) as usize;
        let kinds: Vec<char> = (0..nk + nv).map(|_| *rng.pick(sh.alphabet)).collect();
        let raw = rng.chance(15, 100);
        let xmax_none = !raw && rng.chance(8, 100);
        let pad = !raw && !xmax_none && rng.chance(8, 100);
        // writer ids: distinct, in random order of magnitude
        let mut pool: Vec<u64> = (1..40).collect();
        rng.shuffle(&mut pool);
        if rng.chance(1, 2) {
            pool[..8].sort(); // creation order = id order, the realistic case
        }
        let mut writers = vec![pool[0]];
        let mut next_writer = 1;
        let row: Vec<String> = kinds
            .iter()
            .enumerate()
            .map(|(i, k)| if i < nk { gen_val(rng, *k, sh.small_values) } else { gen_cell(rng, *k, sh.small_values, 30) })
            .collect();
        let mut ops = vec![format!("b {} {} {} {}", nk, kinds.iter().collect::<String>(), pool[0], row.join(","))];
        let nupd = if nv == 0 { 0 } else { rng.below(sh.max_updates + 1) as usize };
        let quick_reads = |rng: &mut Rng, writers: &[u64], ops: &mut Vec<String>, n: usize| {
            for _ in 0..n {
                let s = random_snapshot(rng, writers, xmax_none);
                ops.push(format!("r {}", s));
            }
        };
        for _ in 0..nupd {
            // same writer again now and then (a transaction updating twice)
            let w = if rng.chance(1, 5) { *rng.pick(&writers) } else { pool[next_writer] };
            if !writers.contains(&w) {
                writers.push(w);
                next_writer += 1;
            }
            let mut idx: Vec<usize> = (0..nv).filter(|_| rng.chance(1, 2)).collect();
            if idx.is_empty() && rng.chance(9, 10) {
                idx.push(rng.below(nv as u64) as usize);
            }
            rng.shuffle(&mut idx);
            let mods: Vec<String> =
                idx.iter().map(|i| format!("{}={}", i, gen_cell(rng, kinds[nk + i], sh.small_values, 35))).collect();
            let op = if raw { "u" } else { "U" };
            ops.push(format!("{} {} {}", op, w, if mods.is_empty() { "-".into() } else { mods.join(",") }));
            if rng.chance(1, 3) {
                quick_reads(rng, &writers, &mut ops, 2);
            }
        }
        if nupd > 0 {
            tags.push(match nupd {
                1 => "updates-1",
                2 => "updates-2",
                3 => "updates-3",
                _ => "updates-4plus",
            });
        }
        if raw && nupd > 0 {
            tags.push("raw-update");
        }
        if rng.chance(1, 3) {
            let w = if rng.chance(1, 3) { *rng.pick(&writers) } else { pool[next_writer] };
            if !writers.contains(&w) {
                writers.push(w);
            }
            ops.push(format!("d {}", w));
            tags.push("delete");
        }
        if pad {
            ops.push("p".into());
            tags.push("padded");
        }
        ops.push("l".into());
        let cap = if family == "grid" { 125 } else { 40 };
        let snaps = all_snapshots(rng, &writers, cap);
        for s in &snaps {
            ops.push(format!("r {}", s));
        }
        if xmax_none {
            tags.push("xmax-none");
            quick_reads(rng, &writers, &mut ops, 6);
        }
        if nupd > 0 && !pad && rng.chance(1, 2) {
            // every horizon: each writer id, one above, and the extremes
            let mut hs: Vec<u64> = writers.iter().flat_map(|w| [*w, *w + 1]).collect();
            hs.push(0);
            hs.push(1000);
            let h = *rng.pick(&hs);
            ops.push(format!("v {}", h));
            tags.push("vacuum");
            for s in snaps.iter().take(60) {
                ops.push(format!("r {}", s));
            }
            ops.push("l".into());
            if rng.chance(1, 3) && nv > 0 {
                // the chain goes on after a vacuum
                let w = pool[next_writer + 1];
                let i = rng.below(nv as u64) as usize;
                let op = if raw { "u" } else { "U" };
                ops.push(format!("{} {} {}={}", op, w, i, gen_cell(rng, kinds[nk + i], sh.small_values, 35)));
                writers.push(w);
                quick_reads(rng, &writers, &mut ops, 6);
            }
        }
        if nupd >= 1 {
            tags.push("nt");
        }
        if kinds.contains(&'t') {
            tags.push("has-text");
        }
        if kinds.contains(&'b') {
            tags.push("has-bool");
        }
        if !raw && !xmax_none {
            tags.push("clean-region");
        }
        Case::new(format!("t {}", ops.join(" ; ")), &tags)
    }

    fn gen_edge(rng: &mut Rng) -> Vec<Case> {
        let mut out = Vec::new();
        let snap = "50 50 49 - -";
        // API misuse the code answers with an error, and no-op paths
        for line in [
            format!("t b 1 UI 5 n,x0100000000000000 ; l ; r {snap}"),
            format!("t b 1 UI 5 x0100000000000000,n ; u 7 1=n ; l ; r {snap}"),
            format!("t b 1 UI 5 x0100000000000000,n ; u 7 - ; l ; r {snap}"),
            format!("t b 1 UI 5 x0100000000000000,n ; u 7 0=n,200=n ; l ; r {snap}"),
            format!("t b 1 UI 5 x0100000000000000,x0200000000000000 ; d 7 ; d 8 ; l ; r {snap} ; r 7 7 6 - -"),
            format!("t b 1 UI 5 x0100000000000000,x0200000000000000 ; d 7 ; U 8 0=n ; l ; r {snap} ; r 7 7 6 - - ; r 8 8 7 7 -"),
            format!("t b 2 Ut 5 x0100000000000000,x6162 ; u 7 - ; v 3 ; l ; r {snap}"),
            format!("t u 7 0=n ; r {snap} ; l ; b 1 U 5 x0100000000000000 ; l"),
            format!("t b 3 tbi 1 x,x01,x05000000 ; l ; r {snap} ; d 2 ; r {snap} ; r 2 2 1 - -"),
        ] {
            out.push(Case::new(line, &["edge", "clean-region"]));
        }
        // the version counter: 300 updates on one row
        let mut ops = vec!["b 1 Ui 1 x0100000000000000,x00000000".to_string()];
        for i in 0..300u32 {
            ops.push(format!("U 2 0={}", hexle(i as u64, 4)));
            if i % 16 == 0 {
                ops.push("v 3".into()); // keeps the row short
            }
            if i >= 250 && i < 260 {
                ops.push(format!("r {snap}"));
            }
        }
        ops.push("l".into());
        out.push(Case::new(format!("t {}", ops.join(" ; ")), &["edge", "version-wrap", "nt"]));
        // the snapshot predicate on its own
        for _ in 0..300 {
            let ids: Vec<u64> = (0..6).map(|_| rng.below(12)).collect();
            let none = rng.chance(1, 12);
            let assign: Vec<(u64, Cs)> = ids.iter().map(|i| (*i, *rng.pick(&STATES[..4]))).collect();
            let s = snapshot_for(rng, &assign, none);
            let probe: Vec<String> = (0..14u64).map(|x| x.to_string()).collect();
            let tags: &[&str] =
                if none { &["committed-before", "xmax-none"] } else { &["committed-before", "clean-region"] };
            out.push(Case::new(format!("t c {} {}", s, probe.join(",")), tags));
            // is_tuple_visible for every (creator, deleter) pair of a few ids, incl. the reader's own
            let xid: u64 = s.split(' ').next().unwrap().parse().unwrap();
            let mut ids: Vec<u64> = ids.iter().take(3).copied().collect();
            ids.push(xid);
            let mut ops = Vec::new();
            for a in &ids {
                ops.push(format!("i {} {} -", s, a));
                for b in &ids {
                    ops.push(format!("i {} {} {}", s, a, b));
                }
            }
            let tags2: &[&str] =
                if none { &["tuple-visible", "xmax-none"] } else { &["tuple-visible", "clean-region"] };
            out.push(Case::new(format!("t {}", ops.join(" ; ")), tags2));
        }
        out
    }

    pub fn gen_cases(rng: &mut Rng, tier: Tier) -> Vec<Case> {
        let scale = if tier == Tier::Quick { 1 } else { 10 };
        let mut cases = gen_edge(rng);
        // the grid of the property text: 1-3 keys, 0-4 values, <= 3 updates, small values, every creator state
        let grid = Shape { max_keys: 3, max_vals: 4, max_updates: 3, alphabet: &['U', 'i', 'd', 't', 'b'], small_values: true };
        for _ in 0..10000 * scale {
            cases.push(gen_chain(rng, &grid, "grid"));
        }
        // sampled beyond: up to 12 value columns of every kind, up to 8 updates, long texts
        let large = Shape {
            max_keys: 3,
            max_vals: 12,
            max_updates: 8,
            alphabet: &['b', 'i', 'I', 'u', 'U', 'f', 'd', 't', 't'],
            small_values: false,
        };
        for _ in 0..2500 * scale {
            cases.push(gen_chain(rng, &large, "large"));
        }
        cases
    }
}

/// `Generated/Tuple.lean`: header sizes, field offsets and the size/alignment table of the value kinds, as the code defines them.
pub fn generated() -> Option<(&'static str, String)> {
    let c = vt::constants();
    let mut s = String::new();
    s.push_str("/- REGENERATED on every run by `axh extract` from values evaluated out of /repo. Do not edit. -/\n");
    s.push_str("import AxVerif.Model.Tuple\n");
    s.push_str("namespace AxVerif.Generated\n\n");
    let kind = |name: &str| -> (usize, usize) {
        let k = c.kinds.iter().find(|k| k.1 == name).unwrap_or_else(|| panic!("kind {name} missing"));
        (k.2.unwrap_or(0), k.3)
    };
    let mut fields = vec![
        format!("hdrSize := {}", c.header_size),
        format!("hdrAlign := {}", c.header_align),
        format!("hdrXminOff := {}", c.header_xmin_offset),
        format!("hdrXmaxOff := {}", c.header_xmax_offset),
        format!("hdrVerOff := {}", c.header_version_offset),
        format!("dhSize := {}", c.delta_header_size),
        format!("dhAlign := {}", c.delta_header_align),
        format!("dhXminOff := {}", c.delta_xmin_offset),
        format!("dhVerOff := {}", c.delta_version_offset),
        format!("cellAlign := {}", c.cell_alignment),
    ];
    for (lean, rust) in [
        ("bool", "Bool"),
        ("int", "Int"),
        ("bigint", "BigInt"),
        ("uint", "UInt"),
        ("biguint", "BigUInt"),
        ("float", "Float"),
        ("double", "Double"),
        ("blob", "Blob"),
    ] {
        let (size, align) = kind(rust);
        fields.push(format!("{lean}Size := {size}"));
        fields.push(format!("{lean}Align := {align}"));
    }
    s.push_str("def tupleParams : AxVerif.Tuple.Params :=\n  { ");
    s.push_str(&fields.join(",\n    "));
    s.push_str(" }\n");
    s.push_str("\nend AxVerif.Generated\n");
    Some(("Tuple.lean", s))
}
