//! Engine `cache` (C12): the real `PageCache` and a real `Pager` on a scratch file against the Lean model
//! (`Model/Cache.lean`, `Model/Config.lean`), plus the configuration-grid mode through the public SQL API.
//!
//! Case kinds (one per line):
//!   seq <cap> | op ; op ; …            bare PageCache; ops: ins p v d | get p | pin p | unpin k | hread k | hwrite k v |
//!                                       hdirty k | evict | rm p | clear | drain | setcap n | stat
//!   pgr <cap> <page size> | op ; …     Pager::from_config on a scratch file; ops: alloc | read p | write p v | pin p |
//!                                       unpin k | hread k | hwrite k v | flush | reopen | disk p
//!   cfg <page> <cache> <pool> <min keys> <siblings>    DBConfig::new / builder / page-zero header
//!   grid <workload seed> <statements> <configs>        one SQL workload under a grid of configurations
//! Output: the per-op answers joined by " ; ".
use super::{Case, Engine, Tier};
use crate::rng::Rng;
use axmosdb::verif::cache as vc;
use axmosdb::verif::cache::{VCache, VFrame, VPager};
use std::io::{ErrorKind, Read, Seek, SeekFrom};
use std::sync::atomic::{AtomicU64, Ordering};

pub struct CacheEngine;

const SEQ_PAGE_SIZE: usize = 4096;

fn val_of(f: &VFrame) -> u64 {
    u64::from_le_bytes(f.read_payload(8).try_into().unwrap())
}

fn show_frame(f: &VFrame) -> String {
    format!("{}:{}:{}", f.page_number(), val_of(f), if f.is_dirty() { 1 } else { 0 })
}

fn num(s: &str) -> Option<u64> {
    if s.len() > 19 || s.is_empty() || !s.bytes().all(|b| b.is_ascii_digit()) {
        return None;
    }
    s.parse().ok()
}

fn split_ops<'a>(ws: &[&'a str]) -> Vec<Vec<&'a str>> {
    let mut out = Vec::new();
    let mut cur = Vec::new();
    for w in ws {
        if *w == ";" {
            out.push(std::mem::take(&mut cur));
        } else {
            cur.push(*w);
        }
    }
    if !cur.is_empty() {
        out.push(cur);
    }
    out
}

// ------------------------------------------------------------------------------------------------ seq

#[derive(Clone, Debug)]
enum COp {
    Ins(u64, u64, bool),
    Get(u64),
    Pin(u64),
    Unpin(u64),
    Hread(u64),
    Hwrite(u64, u64),
    Hdirty(u64),
    Evict,
    Rm(u64),
    Clear,
    Drain,
    Setcap(u64),
    Stat,
}

fn parse_cop(ws: &[&str]) -> Option<COp> {
    Some(match ws {
        ["ins", p, v, d] => COp::Ins(
            num(p)?,
            num(v)?,
            match *d {
                "0" => false,
                "1" => true,
                _ => return None,
            },
        ),
        ["get", p] => COp::Get(num(p)?),
        ["pin", p] => COp::Pin(num(p)?),
        ["unpin", k] => COp::Unpin(num(k)?),
        ["hread", k] => COp::Hread(num(k)?),
        ["hwrite", k, v] => COp::Hwrite(num(k)?, num(v)?),
        ["hdirty", k] => COp::Hdirty(num(k)?),
        ["evict"] => COp::Evict,
        ["rm", p] => COp::Rm(num(p)?),
        ["clear"] => COp::Clear,
        ["drain"] => COp::Drain,
        ["setcap", n] => COp::Setcap(num(n)?),
        ["stat"] => COp::Stat,
        _ => return None,
    })
}

fn is_oom(e: &std::io::Error) -> bool {
    e.kind() == ErrorKind::OutOfMemory
}

fn exec_seq(cap: u64, ops: &[COp]) -> String {
    let mut cache = VCache::with_capacity(cap as usize);
    let mut handles: Vec<(u64, VFrame)> = Vec::new();
    let mut next_hid = 0u64;
    let mut outs: Vec<String> = Vec::with_capacity(ops.len());
    for op in ops {
        let o = match op {
            COp::Ins(p, v, d) => {
                let f = vc::new_frame(*p, SEQ_PAGE_SIZE, &v.to_le_bytes(), false);
                if *d {
                    f.mark_dirty();
                }
                let before = cache.num_frames();
                match cache.insert(f) {
                    Err(e) if is_oom(&e) => "oom".to_string(),
                    Err(_) => "io".to_string(),
                    Ok(Some(ev)) => format!("ins ev={}", show_frame(&ev)),
                    Ok(None) => {
                        if cache.num_frames() == before {
                            "rep".to_string()
                        } else {
                            "ins -".to_string()
                        }
                    }
                }
            }
            COp::Get(p) => match cache.get(*p) {
                Some(f) => format!("hit {} {}", val_of(&f), if f.is_dirty() { 1 } else { 0 }),
                None => "miss".to_string(),
            },
            COp::Pin(p) => match cache.get(*p) {
                Some(f) => {
                    let k = next_hid;
                    next_hid += 1;
                    handles.push((k, f));
                    format!("h{}", k)
                }
                None => "miss".to_string(),
            },
            COp::Unpin(k) => match handles.iter().position(|h| h.0 == *k) {
                Some(i) => {
                    handles.remove(i);
                    "ok".to_string()
                }
                None => "nohandle".to_string(),
            },
            COp::Hread(k) => match handles.iter().find(|h| h.0 == *k) {
                Some((_, f)) => format!("val {} {}", val_of(f), if f.is_dirty() { 1 } else { 0 }),
                None => "nohandle".to_string(),
            },
            COp::Hwrite(k, v) => match handles.iter().find(|h| h.0 == *k) {
                Some((_, f)) => {
                    f.mark_dirty();
                    f.write_payload(&v.to_le_bytes());
                    "ok".to_string()
                }
                None => "nohandle".to_string(),
            },
            COp::Hdirty(k) => match handles.iter().find(|h| h.0 == *k) {
                Some((_, f)) => {
                    f.mark_dirty();
                    "ok".to_string()
                }
                None => "nohandle".to_string(),
            },
            COp::Evict => match cache.evict() {
                Err(e) if is_oom(&e) => "oom".to_string(),
                Err(_) => "io".to_string(),
                Ok(None) => "none".to_string(),
                Ok(Some(ev)) => format!("ev={}", show_frame(&ev)),
            },
            COp::Rm(p) => match cache.remove(*p) {
                Some(f) => format!("rm {} n={}", show_frame(&f), cache.num_frames()),
                None => format!("rm - n={}", cache.num_frames()),
            },
            COp::Clear => {
                let fs = cache.clear();
                let l: Vec<String> = fs.iter().map(show_frame).collect();
                format!("clear [{}]", l.join(","))
            }
            COp::Drain => {
                let fs = cache.drain();
                let l: Vec<String> = fs.iter().map(show_frame).collect();
                format!("drain [{}]", l.join(","))
            }
            COp::Setcap(n) => {
                cache.set_capacity(*n as usize);
                "ok".to_string()
            }
            COp::Stat => format!("cap={} n={}", cache.capacity(), cache.num_frames()),
        };
        outs.push(o);
    }
    let (h, m, e) = cache.stats();
    format!("{} ## hits={} misses={} evictions={}", outs.join(" ; "), h, m, e)
}

// ------------------------------------------------------------------------------------------------ pgr

#[derive(Clone, Debug)]
enum POp {
    Alloc,
    Read(u64),
    Write(u64, u64),
    Pin(u64),
    Unpin(u64),
    Hread(u64),
    Hwrite(u64, u64),
    Flush,
    Reopen,
    Disk(u64),
}

fn parse_pop(ws: &[&str]) -> Option<POp> {
    Some(match ws {
        ["alloc"] => POp::Alloc,
        ["read", p] => POp::Read(num(p)?),
        ["write", p, v] => POp::Write(num(p)?, num(v)?),
        ["pin", p] => POp::Pin(num(p)?),
        ["unpin", k] => POp::Unpin(num(k)?),
        ["hread", k] => POp::Hread(num(k)?),
        ["hwrite", k, v] => POp::Hwrite(num(k)?, num(v)?),
        ["flush"] => POp::Flush,
        ["reopen"] => POp::Reopen,
        ["disk", p] => {
            let p = num(p)?;
            if p == 0 {
                return None;
            }
            POp::Disk(p)
        }
        _ => return None,
    })
}

static SCRATCH_COUNTER: AtomicU64 = AtomicU64::new(0);

/// A scratch directory removed on drop.
pub struct Scratch(pub std::path::PathBuf);
impl Scratch {
    pub fn new(tag: &str) -> Scratch {
        let n = SCRATCH_COUNTER.fetch_add(1, Ordering::SeqCst);
        let base = std::env::var("AXH_SCRATCH").map(std::path::PathBuf::from).unwrap_or_else(|_| std::env::temp_dir());
        let p = base.join(format!("axh-{}-{}-{}", tag, std::process::id(), n));
        let _ = std::fs::remove_dir_all(&p);
        std::fs::create_dir_all(&p).expect("scratch dir");
        Scratch(p)
    }
}
impl Drop for Scratch {
    fn drop(&mut self) {
        let _ = std::fs::remove_dir_all(&self.0);
    }
}

fn err_class(e: &std::io::Error) -> String {
    if is_oom(e) { "oom".into() } else { "io".into() }
}

fn disk_value(path: &std::path::Path, page: u64, page_size: u64) -> Option<u64> {
    let mut f = std::fs::File::open(path).ok()?;
    let len = f.metadata().ok()?.len();
    if (page + 1) * page_size > len {
        return None;
    }
    f.seek(SeekFrom::Start(page * page_size + vc::PAYLOAD_OFFSET as u64)).ok()?;
    let mut b = [0u8; 8];
    f.read_exact(&mut b).ok()?;
    Some(u64::from_le_bytes(b))
}

fn exec_pgr(cap: u64, ps: u64, ops: &[POp]) -> String {
    let dir = Scratch::new("pgr");
    let path = dir.0.join("c12.db");
    let cfg = axmosdb::DBConfig::new(ps as usize, cap as usize, 1, 3, 2);
    let mut pager = match VPager::create(&path, cfg) {
        Ok(p) => Some(p),
        Err(_) => return "create-failed".into(),
    };
    let mut handles: Vec<(u64, VFrame)> = Vec::new();
    let mut next_hid = 0u64;
    let mut outs: Vec<String> = Vec::with_capacity(ops.len());
    // Page ids are handed out sequentially. An id consumed by an allocation that failed never reached its caller (nor the
    // cache, nor the file): such pages are not referred to afterwards.
    let mut next_id = 1u64;
    let mut lost: Vec<u64> = Vec::new();
    for op in ops {
        let pg = pager.as_mut().unwrap();
        if let POp::Read(p) | POp::Write(p, _) | POp::Pin(p) | POp::Disk(p) = op {
            if lost.contains(p) {
                outs.push("lost".into());
                continue;
            }
        }
        let o = match op {
            POp::Alloc => {
                let r = pg.alloc();
                let id = next_id;
                next_id += 1;
                match r {
                    Ok(got) if got == id => format!("a{}", got),
                    Ok(got) => format!("a{} PROPFAIL expected-id={}", got, id),
                    Err(e) => {
                        lost.push(id);
                        err_class(&e)
                    }
                }
            }
            POp::Read(p) => match pg.read_payload(*p, 8) {
                Ok(b) => format!("r{}", u64::from_le_bytes(b.try_into().unwrap())),
                Err(e) => err_class(&e),
            },
            POp::Write(p, v) => match pg.write(*p, &v.to_le_bytes()) {
                Ok(()) => "ok".into(),
                Err(e) => err_class(&e),
            },
            POp::Pin(p) => match pg.read(*p) {
                Ok(f) => {
                    let k = next_hid;
                    next_hid += 1;
                    handles.push((k, f));
                    format!("h{}", k)
                }
                Err(e) => err_class(&e),
            },
            POp::Unpin(k) => match handles.iter().position(|h| h.0 == *k) {
                Some(i) => {
                    handles.remove(i);
                    "ok".into()
                }
                None => "nohandle".into(),
            },
            POp::Hread(k) => match handles.iter().find(|h| h.0 == *k) {
                Some((_, f)) => format!("r{}", val_of(f)),
                None => "nohandle".into(),
            },
            POp::Hwrite(k, v) => match handles.iter().find(|h| h.0 == *k) {
                Some((_, f)) => {
                    f.mark_dirty();
                    f.write_payload(&v.to_le_bytes());
                    "ok".into()
                }
                None => "nohandle".into(),
            },
            POp::Flush => match pg.flush() {
                Ok(()) => "ok".into(),
                Err(e) => err_class(&e),
            },
            POp::Reopen => match pg.flush() {
                Err(e) => err_class(&e),
                Ok(()) => {
                    drop(pager.take()); // releases the file lock
                    match VPager::open(&path) {
                        Ok(p) => {
                            pager = Some(p);
                            "ok".into()
                        }
                        Err(_) => return format!("{} ; open-failed", outs.join(" ; ")),
                    }
                }
            },
            POp::Disk(p) => match disk_value(&path, *p, ps) {
                Some(v) => format!("d{}", v),
                None => "eof".into(),
            },
        };
        outs.push(o);
    }
    let hc = pager.as_ref().unwrap().header_config();
    drop(handles);
    drop(pager);
    format!("{} ## total_pages={}", outs.join(" ; "), hc.total_pages)
}

// ------------------------------------------------------------------------------------------------ cfg

fn exec_cfg(a: u64, b: u64, c: u64, d: u64, e: u64) -> String {
    let show = |x: [usize; 5]| format!("{},{},{},{},{}", x[0], x[1], x[2], x[3], x[4]);
    let n = vc::config_new(a as usize, b as usize, c as usize, d as usize, e as usize);
    let bl = vc::config_builder(a as usize, b as usize, c as usize, d as usize, e as usize);
    let mut out = format!("new={} bld={}", show(n), show(bl));
    if b <= 1_000_000 {
        // the header as written by Pager::from_config and as read back by Pager::open
        let dir = Scratch::new("cfg");
        let path = dir.0.join("c12.db");
        let cfg = axmosdb::DBConfig::new(a as usize, b as usize, c as usize, d as usize, e as usize);
        let h1 = match VPager::create(&path, cfg) {
            Ok(p) => p.header_config(),
            Err(_) => return "create-failed".into(),
        };
        let h2 = match VPager::open(&path) {
            Ok(p) => p.header_config(),
            Err(_) => return "open-failed".into(),
        };
        out.push_str(&format!(" hdr={},{},{},{}", h1.page_size, h1.cache_size, h1.min_keys, h1.num_siblings_per_side));
        if h1 != h2 {
            out.push_str(" PROPFAIL header-differs-after-open");
        }
    }
    out
}

// ------------------------------------------------------------------------------------------------ generators

fn gen_seq(rng: &mut Rng) -> String {
    let cap = match rng.below(10) {
        0 => 0,
        1 | 2 => 1,
        3 | 4 => rng.range(2, 4) as u64,
        5 | 6 | 7 => rng.range(5, 16) as u64,
        _ => rng.range(17, 64) as u64,
    };
    let n_ops = rng.range(4, 30) as usize + if rng.chance(1, 3) { rng.range(20, 120) as usize } else { 0 };
    let pages = (cap.max(1) * rng.range(1, 3) as u64 + rng.below(4)).max(2);
    // op mix: a profile per case so that some cases are pin-heavy (OOM), some clear-heavy, …
    let pin_w = *rng.pick(&[1u64, 3, 8, 16]);
    let unpin_w = *rng.pick(&[1u64, 3, 8]);
    let clear_w = *rng.pick(&[0u64, 1, 1, 3]);
    let rm_w = *rng.pick(&[0u64, 1, 2]);
    let setcap_w = *rng.pick(&[0u64, 0, 0, 1]);
    let mut ops: Vec<String> = Vec::new();
    let mut pins = 0u64;
    for _ in 0..n_ops {
        let total = 12 + 5 + pin_w + unpin_w + 3 + 3 + 1 + 2 + rm_w + clear_w + setcap_w + 1;
        let mut r = rng.below(total);
        let mut take = |w: u64| {
            if r < w {
                true
            } else {
                r -= w;
                false
            }
        };
        let p = 1 + rng.below(pages);
        let extra = if rng.chance(1, 8) { 1 } else { 0 };
        let k = if pins == 0 { 0 } else { rng.below(pins + extra) };
        let v = if rng.chance(1, 20) { rng.next_u64() >> 1 } else { rng.below(1000) };
        let op = if take(12) {
            format!("ins {} {} {}", p, v, rng.below(2))
        } else if take(5) {
            format!("get {}", p)
        } else if take(pin_w) {
            pins += 1;
            format!("pin {}", p)
        } else if take(unpin_w) {
            format!("unpin {}", k)
        } else if take(3) {
            format!("hread {}", k)
        } else if take(3) {
            format!("hwrite {} {}", k, v)
        } else if take(1) {
            format!("hdirty {}", k)
        } else if take(2) {
            "evict".to_string()
        } else if take(rm_w) {
            format!("rm {}", p)
        } else if take(clear_w) {
            if rng.chance(1, 4) { "drain".to_string() } else { "clear".to_string() }
        } else if take(setcap_w) {
            format!("setcap {}", rng.below(cap + 4))
        } else {
            "stat".to_string()
        };
        ops.push(op);
    }
    format!("seq {} | {}", cap, ops.join(" ; "))
}

fn gen_pgr(rng: &mut Rng) -> String {
    let cap = match rng.below(10) {
        0 | 1 => 1,
        2 | 3 | 4 => rng.range(2, 4) as u64,
        5 | 6 | 7 => rng.range(5, 16) as u64,
        _ => rng.range(17, 64) as u64,
    };
    let ps = if rng.chance(3, 4) { 4096 } else { *rng.pick(&[8192u64, 16384, 32768, 65536]) };
    let n_alloc = (cap * rng.range(1, 3) as u64 + rng.below(4)).clamp(2, 90);
    let n_ops = rng.range(6, 40) as usize + if rng.chance(1, 3) { rng.range(20, 100) as usize } else { 0 };
    let pin_w = *rng.pick(&[0u64, 1, 3, 8]);
    let unpin_w = *rng.pick(&[1u64, 3, 8]);
    let flush_w = *rng.pick(&[0u64, 1, 1, 2]);
    let reopen_w = *rng.pick(&[0u64, 0, 1]);
    // flushing while frames are pinned detaches them; keep that out of most cases
    let flush_pinned_ok = rng.chance(1, 4);
    let mut ops: Vec<String> = Vec::new();
    let mut allocated = 0u64;
    let mut pins = 0u64;
    let mut live: Vec<u64> = Vec::new();
    for _ in 0..n_ops {
        if allocated < n_alloc && (allocated < 2 || rng.chance(2, 5)) {
            allocated += 1;
            ops.push("alloc".into());
            continue;
        }
        let total = 8 + 8 + pin_w + unpin_w + 2 + 3 + flush_w + reopen_w + 3;
        let mut r = rng.below(total);
        let mut take = |w: u64| {
            if r < w {
                true
            } else {
                r -= w;
                false
            }
        };
        let p = if rng.chance(1, 25) { rng.below(allocated + 3) } else { 1 + rng.below(allocated.max(1)) };
        let extra = if rng.chance(1, 8) { 1 } else { 0 };
        let k = if pins == 0 { 0 } else { rng.below(pins + extra) };
        let v = if rng.chance(1, 20) { rng.next_u64() >> 1 } else { 1 + rng.below(1000) };
        let op = if take(8) {
            format!("read {}", p)
        } else if take(8) {
            format!("write {} {}", p, v)
        } else if take(pin_w) {
            live.push(pins);
            pins += 1;
            format!("pin {}", p)
        } else if take(unpin_w) {
            live.retain(|h| *h != k);
            format!("unpin {}", k)
        } else if take(2) {
            format!("hread {}", k)
        } else if take(3) {
            format!("hwrite {} {}", k, v)
        } else if take(flush_w + reopen_w) {
            if !flush_pinned_ok {
                for h in live.drain(..) {
                    ops.push(format!("unpin {}", h));
                }
            }
            if rng.below(flush_w + reopen_w) < flush_w { "flush".to_string() } else { "reopen".to_string() }
        } else {
            format!("disk {}", p.max(1))
        };
        ops.push(op);
    }
    // every case ends by reading everything back, through the cache and (after a checkpoint) from the file
    if rng.chance(1, 2) {
        if !flush_pinned_ok {
            for h in live.drain(..) {
                ops.push(format!("unpin {}", h));
            }
        }
        ops.push("flush".into());
        for p in 1..=allocated {
            ops.push(format!("disk {}", p));
        }
    }
    for p in 1..=allocated {
        ops.push(format!("read {}", p));
    }
    format!("pgr {} {} | {}", cap, ps, ops.join(" ; "))
}

fn gen_cfg(rng: &mut Rng) -> String {
    let page = match rng.below(8) {
        0 => rng.below(5000),
        1 => *rng.pick(&[0u64, 1, 4095, 4096, 4097, 8191, 8192, 8193, 65535, 65536, 65537, 1 << 20, 1 << 40]),
        2 => 1u64 << rng.below(63),
        3 => (1u64 << rng.below(62)) + 1,
        _ => rng.below(140_000),
    };
    let cache = match rng.below(8) {
        0 => *rng.pick(&[0u64, 1, 48, 128, 1024, 10000, 65535, 65536, 65537, 100_000]),
        1 => rng.below(1 << 40),
        _ => rng.below(200_000),
    };
    let pool = rng.below(12);
    let mk = if rng.chance(1, 5) { rng.below(1000) } else { rng.below(12) };
    let sib = if rng.chance(1, 5) { rng.below(1000) } else { rng.below(8) };
    format!("cfg {} {} {} {} {}", page, cache, pool, mk, sib)
}

fn tags_of(line: &str, out: &str) -> Vec<String> {
    let mut tags: Vec<String> = Vec::new();
    let ws: Vec<&str> = line.split(' ').collect();
    let kind = ws[0];
    tags.push(kind.to_string());
    let g = out.split(" ## ").next().unwrap_or("");
    match kind {
        "seq" | "pgr" => {
            let cap: u64 = ws[1].parse().unwrap_or(0);
            tags.push(
                match cap {
                    0 => "cap0",
                    1 => "cap1",
                    2..=4 => "cap2-4",
                    5..=16 => "cap5-16",
                    _ => "cap17-64",
                }
                .to_string(),
            );
            if kind == "pgr" && ws[2] != "4096" {
                tags.push("bigpage".into());
            }
            let body = line.split(" | ").nth(1).unwrap_or("");
            let mut kinds: Vec<&str> = body.split(" ; ").map(|o| o.split(' ').next().unwrap_or("")).collect();
            let n_ops = kinds.len();
            kinds.sort();
            kinds.dedup();
            for k in kinds {
                tags.push(format!("op:{}", k));
            }
            tags.push(if n_ops > 50 { "long".into() } else { "short".into() });
            let outs: Vec<&str> = g.split(" ; ").collect();
            let has = |f: &dyn Fn(&str) -> bool| outs.iter().any(|o| f(o));
            if has(&|o| o == "oom") {
                tags.push("out:oom".into());
            }
            if has(&|o| o == "io") {
                tags.push("out:io".into());
            }
            if has(&|o| o.contains("ev=")) {
                tags.push("out:evict".into());
            }
            if has(&|o| o.contains("ev=") && o.ends_with(":1")) {
                tags.push("out:evict-dirty".into());
            }
            if has(&|o| o.starts_with("hit")) {
                tags.push("out:hit".into());
            }
            if has(&|o| o == "miss") {
                tags.push("out:miss".into());
            }
            if has(&|o| o == "rep") {
                tags.push("out:replace".into());
            }
            if has(&|o| o == "nohandle") {
                tags.push("out:nohandle".into());
            }
            if has(&|o| o == "eof") {
                tags.push("out:eof".into());
            }
            let nontrivial = if kind == "seq" {
                has(&|o| o.contains("ev=") || o == "oom" || (o.starts_with("clear [") && o != "clear []"))
            } else {
                // some page went to the file and was looked at again, or memory ran out
                let allocs = outs.iter().filter(|o| o.starts_with('a')).count() as u64;
                allocs > cap.max(1) || body.contains("flush") || body.contains("reopen") || has(&|o| o == "oom")
            };
            if nontrivial {
                tags.push("nt".into());
            }
        }
        "cfg" => {
            tags.push("nt".into());
            let cache: u64 = ws[2].parse().unwrap_or(0);
            if cache >= 65536 {
                tags.push("cache-over-u16".into());
            }
            if ws[4].parse::<u64>().unwrap_or(0) >= 256 || ws[5].parse::<u64>().unwrap_or(0) >= 256 {
                tags.push("over-u8".into());
            }
        }
        _ => {}
    }
    tags
}

impl Engine for CacheEngine {
    fn gen_cases(&self, rng: &mut Rng, tier: Tier) -> Vec<Case> {
        let scale = if tier == Tier::Thorough { 10 } else { 1 };
        let mut lines: Vec<String> = Vec::new();
        let mut r_seq = rng.fork("seq");
        for _ in 0..(2500 * scale) {
            lines.push(gen_seq(&mut r_seq));
        }
        let mut r_pgr = rng.fork("pgr");
        for _ in 0..(1200 * scale) {
            lines.push(gen_pgr(&mut r_pgr));
        }
        let mut r_cfg = rng.fork("cfg");
        for _ in 0..(150 * scale) {
            lines.push(gen_cfg(&mut r_cfg));
        }
        // tags describe what the case reaches on the real code (outcome classes), so they are measured, not guessed
        let mut eng = CacheEngine;
        lines
            .into_iter()
            .map(|line| {
                let out = std::panic::catch_unwind(std::panic::AssertUnwindSafe(|| eng.exec(&line)))
                    .unwrap_or_else(|_| "panic".into());
                let tags = tags_of(&line, &out);
                Case { line, tags }
            })
            .collect()
    }

    fn exec(&mut self, line: &str) -> String {
        let ws: Vec<&str> = line.trim().split(' ').filter(|w| !w.is_empty()).collect();
        match ws.as_slice() {
            ["seq", cap, "|", rest @ ..] => {
                let Some(cap) = num(cap) else { return "bad-op".into() };
                let ops: Option<Vec<COp>> = split_ops(rest).iter().map(|o| parse_cop(o)).collect();
                match ops {
                    Some(ops) => exec_seq(cap, &ops),
                    None => "bad-op".into(),
                }
            }
            ["pgr", cap, ps, "|", rest @ ..] => {
                let (Some(cap), Some(ps)) = (num(cap), num(ps)) else { return "bad-op".into() };
                if ![4096, 8192, 16384, 32768, 65536].contains(&ps) || cap > 200_000 {
                    return "bad-op".into();
                }
                let ops: Option<Vec<POp>> = split_ops(rest).iter().map(|o| parse_pop(o)).collect();
                match ops {
                    Some(ops) => exec_pgr(cap, ps, &ops),
                    None => "bad-op".into(),
                }
            }
            ["cfg", a, b, c, d, e] => match (num(a), num(b), num(c), num(d), num(e)) {
                (Some(a), Some(b), Some(c), Some(d), Some(e)) => exec_cfg(a, b, c, d, e),
                _ => "bad-op".into(),
            },
            _ => "bad-op".into(),
        }
    }

    fn timeout_ms(&self) -> u64 {
        60_000
    }
}

/// Content of `lean/AxVerif/Generated/<Engine>.lean`, if this engine extracts constants from the code.
pub fn generated() -> Option<(&'static str, String)> {
    let c = vc::config_constants();
    let s = format!(
        "/- REGENERATED on every run by `axh extract` from values evaluated out of /repo. Do not edit. -/\n\
         namespace AxVerif.Generated\n\n\
         /-- MIN_PAGE_SIZE, MAX_PAGE_SIZE, DEFAULT_CACHE_SIZE, and page size / min keys / siblings of `DBConfig::default()` -/\n\
         def cacheConsts : List Nat := [{}, {}, {}, {}, {}, {}]\n\n\
         end AxVerif.Generated\n",
        c[0], c[1], c[2], c[3], c[4], c[5]
    );
    Some(("Cache.lean", s))
}
