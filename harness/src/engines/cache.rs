//! Engine `cache` (C12): the real `PageCache` and a real `Pager` on a scratch file against the Lean model
//! (`Model/Cache.lean`, `Model/Config.lean`), plus the configuration-grid mode through the public SQL API.
//!
//! Case kinds (one per line):
//!   seq <cap> | op ; op ; …            bare PageCache; ops: ins p v d | get p | pin p | unpin k | hread k | hwrite k v |
//!                                       hdirty k | evict | rm p | clear | drain | setcap n | stat
//!   pgr <cap> <page size> | op ; …     Pager::from_config on a scratch file; ops: alloc | read p | write p v | pin p |
//!                                       unpin k | hread k | hwrite k v | flush | reopen | disk p
//!   cfg <page> <cache> <pool> <min keys> <siblings>    DBConfig::new / builder / page-zero header
//!   grid <workload seed> <statements> <configs>        one SQL workload under a grid of configurations
//! Output: the per-op answers joined by " ; ".
use super::{Case, Engine, Tier};
use crate::rng::Rng;
use axmosdb::verif::cache as vc;
use axmosdb::verif::cache::{VCache, VFrame, VPager};
use std::io::{ErrorKind, Read, Seek, SeekFrom};
use std::sync::atomic::{AtomicU64, Ordering};

pub struct CacheEngine;

const SEQ_PAGE_SIZE: usize = 4096;

fn val_of(f: &VFrame) -> u64 {
    u64::from_le_bytes(f.read_payload(8).try_into().unwrap())
}

fn show_frame(f: &VFrame) -> String {
    format!("{}:{}:{}", f.page_number(), val_of(f), if f.is_dirty() { 1 } else { 0 })
}

fn num(s: &str) -> Option<u64> {
    if s.len() > 19 || s.is_empty() || !s.bytes().all(|b| b.is_ascii_digit()) {
        return None;
    }
    s.parse().ok()
}

fn split_ops<'a>(ws: &[&'a str]) -> Vec<Vec<&'a str>> {
    let mut out = Vec::new();
    let mut cur = Vec::new();
    for w in ws {
        if *w == ";" {
            out.push(std::mem::take(&mut cur));
        } else {
            cur.push(*w);
        }
    }
    if !cur.is_empty() {
        out.push(cur);
    }
    out
}

// ------------------------------------------------------------------------------------------------ seq

#[derive(Clone, Debug)]
enum COp {
    Ins(u64, u64, bool),
    Get(u64),
    Pin(u64),
    Unpin(u64),
    Hread(u64),
    Hwrite(u64, u64),
    Hdirty(u64),
    Evict,
    Rm(u64),
    Clear,
    Drain,
    Setcap(u64),
    Stat,
    /// n inserts of fresh clean frames for two reserved page ids in turn
    Churn(u64),
}

fn parse_cop(ws: &[&str]) -> Option<COp> {
    Some(match ws {
        ["ins", p, v, d] => COp::Ins(
            num(p)?,
            num(v)?,
            match *d {
                "0" => false,
                "1" => true,
                _ => return None,
            },
        ),
        ["get", p] => COp::Get(num(p)?),
        ["pin", p] => COp::Pin(num(p)?),
        ["unpin", k] => COp::Unpin(num(k)?),
        ["hread", k] => COp::Hread(num(k)?),
        ["hwrite", k, v] => COp::Hwrite(num(k)?, num(v)?),
        ["hdirty", k] => COp::Hdirty(num(k)?),
        ["evict"] => COp::Evict,
        ["rm", p] => COp::Rm(num(p)?),
        ["clear"] => COp::Clear,
        ["drain"] => COp::Drain,
        ["setcap", n] => COp::Setcap(num(n)?),
        ["stat"] => COp::Stat,
        ["churn", n] => {
            let n = num(n)?;
            if n > 200_000 {
                return None;
            }
            COp::Churn(n)
        }
        _ => return None,
    })
}

fn is_oom(e: &std::io::Error) -> bool {
    e.kind() == ErrorKind::OutOfMemory
}

fn exec_seq(cap: u64, ops: &[COp]) -> String {
    let mut cache = VCache::with_capacity(cap as usize);
    let mut handles: Vec<(u64, VFrame)> = Vec::new();
    let mut next_hid = 0u64;
    let mut outs: Vec<String> = Vec::with_capacity(ops.len());
    for op in ops {
        let o = match op {
            COp::Ins(p, v, d) => {
                let f = vc::new_frame(*p, SEQ_PAGE_SIZE, &v.to_le_bytes(), false);
                if *d {
                    f.mark_dirty();
                }
                let before = cache.num_frames();
                match cache.insert(f) {
                    Err(e) if is_oom(&e) => "oom".to_string(),
                    Err(_) => "io".to_string(),
                    Ok(Some(ev)) => format!("ins ev={}", show_frame(&ev)),
                    Ok(None) => {
                        if cache.num_frames() == before {
                            "rep".to_string()
                        } else {
                            "ins -".to_string()
                        }
                    }
                }
            }
            COp::Get(p) => match cache.get(*p) {
                Some(f) => format!("hit {} {}", val_of(&f), if f.is_dirty() { 1 } else { 0 }),
                None => "miss".to_string(),
            },
            COp::Pin(p) => match cache.get(*p) {
                Some(f) => {
                    let k = next_hid;
                    next_hid += 1;
                    handles.push((k, f));
                    format!("h{}", k)
                }
                None => "miss".to_string(),
            },
            COp::Unpin(k) => match handles.iter().position(|h| h.0 == *k) {
                Some(i) => {
                    handles.remove(i);
                    "ok".to_string()
                }
                None => "nohandle".to_string(),
            },
            COp::Hread(k) => match handles.iter().find(|h| h.0 == *k) {
                Some((_, f)) => format!("val {} {}", val_of(f), if f.is_dirty() { 1 } else { 0 }),
                None => "nohandle".to_string(),
            },
            COp::Hwrite(k, v) => match handles.iter().find(|h| h.0 == *k) {
                Some((_, f)) => {
                    f.mark_dirty();
                    f.write_payload(&v.to_le_bytes());
                    "ok".to_string()
                }
                None => "nohandle".to_string(),
            },
            COp::Hdirty(k) => match handles.iter().find(|h| h.0 == *k) {
                Some((_, f)) => {
                    f.mark_dirty();
                    "ok".to_string()
                }
                None => "nohandle".to_string(),
            },
            COp::Evict => match cache.evict() {
                Err(e) if is_oom(&e) => "oom".to_string(),
                Err(_) => "io".to_string(),
                Ok(None) => "none".to_string(),
                Ok(Some(ev)) => format!("ev={}", show_frame(&ev)),
            },
            COp::Rm(p) => match cache.remove(*p) {
                Some(f) => format!("rm {} n={}", show_frame(&f), cache.num_frames()),
                None => format!("rm - n={}", cache.num_frames()),
            },
            COp::Clear => {
                let fs = cache.clear();
                let l: Vec<String> = fs.iter().map(show_frame).collect();
                format!("clear [{}]", l.join(","))
            }
            COp::Drain => {
                let fs = cache.drain();
                let l: Vec<String> = fs.iter().map(show_frame).collect();
                format!("drain [{}]", l.join(","))
            }
            COp::Setcap(n) => {
                cache.set_capacity(*n as usize);
                "ok".to_string()
            }
            COp::Stat => format!("cap={} n={}", cache.capacity(), cache.num_frames()),
            COp::Churn(n) => {
                const CHURN_BASE: u64 = 1 << 40;
                let mut evictions = 0u64;
                let mut failed = None;
                for i in 0..*n {
                    let f = vc::new_frame(CHURN_BASE + i % 2, SEQ_PAGE_SIZE, &0u64.to_le_bytes(), false);
                    match cache.insert(f) {
                        Ok(Some(_)) => evictions += 1,
                        Ok(None) => {}
                        Err(e) => {
                            failed = Some(err_class(&e));
                            break;
                        }
                    }
                }
                match failed {
                    Some(e) => e,
                    None => format!("churn {}", evictions),
                }
            }
        };
        outs.push(o);
    }
    let (h, m, e) = cache.stats();
    format!("{} ## hits={} misses={} evictions={}", outs.join(" ; "), h, m, e)
}

// ------------------------------------------------------------------------------------------------ pgr

#[derive(Clone, Debug)]
enum POp {
    Alloc,
    Read(u64),
    Write(u64, u64),
    Pin(u64),
    Unpin(u64),
    Hread(u64),
    Hwrite(u64, u64),
    Flush,
    Reopen,
    Disk(u64),
}

fn parse_pop(ws: &[&str]) -> Option<POp> {
    Some(match ws {
        ["alloc"] => POp::Alloc,
        ["read", p] => POp::Read(num(p)?),
        ["write", p, v] => POp::Write(num(p)?, num(v)?),
        ["pin", p] => POp::Pin(num(p)?),
        ["unpin", k] => POp::Unpin(num(k)?),
        ["hread", k] => POp::Hread(num(k)?),
        ["hwrite", k, v] => POp::Hwrite(num(k)?, num(v)?),
        ["flush"] => POp::Flush,
        ["reopen"] => POp::Reopen,
        ["disk", p] => {
            let p = num(p)?;
            if p == 0 {
                return None;
            }
            POp::Disk(p)
        }
        _ => return None,
    })
}

static SCRATCH_COUNTER: AtomicU64 = AtomicU64::new(0);

/// A scratch directory removed on drop.
pub struct Scratch(pub std::path::PathBuf);
impl Scratch {
    pub fn new(tag: &str) -> Scratch {
        let n = SCRATCH_COUNTER.fetch_add(1, Ordering::SeqCst);
        let base = std::env::var("AXH_SCRATCH").map(std::path::PathBuf::from).unwrap_or_else(|_| std::env::temp_dir());
        let p = base.join(format!("axh-{}-{}-{}", tag, std::process::id(), n));
        let _ = std::fs::remove_dir_all(&p);
        std::fs::create_dir_all(&p).expect("scratch dir");
        Scratch(p)
    }
}
impl Drop for Scratch {
    fn drop(&mut self) {
        let _ = std::fs::remove_dir_all(&self.0);
    }
}

fn err_class(e: &std::io::Error) -> String {
    if is_oom(e) { "oom".into() } else { "io".into() }
}

fn disk_value(path: &std::path::Path, page: u64, page_size: u64) -> Option<u64> {
    let mut f = std::fs::File::open(path).ok()?;
    let len = f.metadata().ok()?.len();
    if (page + 1) * page_size > len {
        return None;
    }
    f.seek(SeekFrom::Start(page * page_size + vc::PAYLOAD_OFFSET as u64)).ok()?;
    let mut b = [0u8; 8];
    f.read_exact(&mut b).ok()?;
    Some(u64::from_le_bytes(b))
}

fn exec_pgr(cap: u64, ps: u64, ops: &[POp]) -> String {
    let dir = Scratch::new("pgr");
    let path = dir.0.join("c12.db");
    let cfg = axmosdb::DBConfig::new(ps as usize, cap as usize, 1, 3, 2);
    let mut pager = match VPager::create(&path, cfg) {
        Ok(p) => Some(p),
        Err(_) => return "create-failed".into(),
    };
    let mut handles: Vec<(u64, VFrame)> = Vec::new();
    let mut next_hid = 0u64;
    let mut outs: Vec<String> = Vec::with_capacity(ops.len());
    // Page ids are handed out sequentially. An id consumed by an allocation that failed never reached its caller (nor the
    // cache, nor the file): such pages are not referred to afterwards.
    let mut next_id = 1u64;
    let mut lost: Vec<u64> = Vec::new();
    for op in ops {
        let pg = pager.as_mut().unwrap();
        if let POp::Read(p) | POp::Write(p, _) | POp::Pin(p) | POp::Disk(p) = op {
            if lost.contains(p) {
                outs.push("lost".into());
                continue;
            }
        }
        let o = match op {
            POp::Alloc => {
                let r = pg.alloc();
                let id = next_id;
                next_id += 1;
                match r {
                    Ok(got) if got == id => format!("a{}", got),
                    Ok(got) => format!("a{} PROPFAIL expected-id={}", got, id),
                    Err(e) => {
                        lost.push(id);
                        err_class(&e)
                    }
                }
            }
            POp::Read(p) => match pg.read_payload(*p, 8) {
                Ok(b) => format!("r{}", u64::from_le_bytes(b.try_into().unwrap())),
                Err(e) => err_class(&e),
            },
            POp::Write(p, v) => match pg.write(*p, &v.to_le_bytes()) {
                Ok(()) => "ok".into(),
                Err(e) => err_class(&e),
            },
            POp::Pin(p) => match pg.read(*p) {
                Ok(f) => {
                    let k = next_hid;
                    next_hid += 1;
                    handles.push((k, f));
                    format!("h{}", k)
                }
                Err(e) => err_class(&e),
            },
            POp::Unpin(k) => match handles.iter().position(|h| h.0 == *k) {
                Some(i) => {
                    handles.remove(i);
                    "ok".into()
                }
                None => "nohandle".into(),
            },
            POp::Hread(k) => match handles.iter().find(|h| h.0 == *k) {
                Some((_, f)) => format!("r{}", val_of(f)),
                None => "nohandle".into(),
            },
            POp::Hwrite(k, v) => match handles.iter().find(|h| h.0 == *k) {
                Some((_, f)) => {
                    f.mark_dirty();
                    f.write_payload(&v.to_le_bytes());
                    "ok".into()
                }
                None => "nohandle".into(),
            },
            POp::Flush => match pg.flush() {
                Ok(()) => "ok".into(),
                Err(e) => err_class(&e),
            },
            POp::Reopen => match pg.flush() {
                Err(e) => err_class(&e),
                Ok(()) => {
                    drop(pager.take()); // releases the file lock
                    match VPager::open(&path) {
                        Ok(p) => {
                            pager = Some(p);
                            "ok".into()
                        }
                        Err(_) => return format!("{} ; open-failed", outs.join(" ; ")),
                    }
                }
            },
            POp::Disk(p) => match disk_value(&path, *p, ps) {
                Some(v) => format!("d{}", v),
                None => "eof".into(),
            },
        };
        outs.push(o);
    }
    let hc = pager.as_ref().unwrap().header_config();
    drop(handles);
    drop(pager);
    format!("{} ## total_pages={}", outs.join(" ; "), hc.total_pages)
}

// ------------------------------------------------------------------------------------------------ cfg

fn exec_cfg(a: u64, b: u64, c: u64, d: u64, e: u64) -> String {
    let show = |x: [usize; 5]| format!("{},{},{},{},{}", x[0], x[1], x[2], x[3], x[4]);
    let n = vc::config_new(a as usize, b as usize, c as usize, d as usize, e as usize);
    let bl = vc::config_builder(a as usize, b as usize, c as usize, d as usize, e as usize);
    let mut out = format!("new={} bld={}", show(n), show(bl));
    if b <= 1_000_000 {
        // the header as written by Pager::from_config and as read back by Pager::open
        let dir = Scratch::new("cfg");
        let path = dir.0.join("c12.db");
        let cfg = axmosdb::DBConfig::new(a as usize, b as usize, c as usize, d as usize, e as usize);
        let h1 = match VPager::create(&path, cfg) {
            Ok(p) => p.header_config(),
            Err(_) => return "create-failed".into(),
        };
        let h2 = match VPager::open(&path) {
            Ok(p) => p.header_config(),
            Err(_) => return "open-failed".into(),
        };
        out.push_str(&format!(" hdr={},{},{},{}", h1.page_size, h1.cache_size, h1.min_keys, h1.num_siblings_per_side));
        if h1 != h2 {
            out.push_str(" PROPFAIL header-differs-after-open");
        }
    }
    out
}


// ------------------------------------------------------------------------------------------------ grid
//
// One SQL workload (a compact statement list on two fixed tables) executed through the public API under several
// configurations; every statement's canonical result and the final contents must be identical in all of them.
//   grid <config seed> <n configs> <small 0|1> | stmt ; stmt ; …
//   stmts: ins id k len | upd id k | updb id len | updr lo hi k | del id | delr lo hi | sel all | sel cnt | sel id x |
//          sel k lo hi | uins id code v | udel id | usel | ckpt
// `ckpt` is a checkpoint (Database::flush) executed only by the configurations that have checkpoints switched on.

#[derive(Clone, Debug)]
enum GStmt {
    Ins(u64, u64, u64),
    /// `bulk lo n k len`: n single-row inserts with ids lo.., answered as one result
    Bulk(u64, u64, u64, u64),
    Upd(u64, u64),
    UpdBody(u64, u64),
    UpdRange(u64, u64, u64),
    Del(u64),
    DelRange(u64, u64),
    SelAll,
    SelCnt,
    SelId(u64),
    SelK(u64, u64),
    UIns(u64, u64, u64),
    UDel(u64),
    USel,
    Ckpt,
    /// `wnew g` / `wdrop g`: CREATE / DROP TABLE w<g> (id BIGINT, v INT); `vac`: Database::vacuum; `wins g id v`; `wsel g` —
    /// side tables that come and go, so that pages travel through the free list and roots are recycled
    WNew(u64),
    WDrop(u64),
    Vac,
    WIns(u64, u64, u64),
    WSel(u64),
}

fn parse_gstmt(ws: &[&str]) -> Option<GStmt> {
    Some(match ws {
        ["ins", a, b, c] => GStmt::Ins(num(a)?, num(b)?, num(c)?),
        ["bulk", a, b, c, d] => {
            let n = num(b)?;
            if n == 0 || n > 2000 {
                return None;
            }
            GStmt::Bulk(num(a)?, n, num(c)?, num(d)?)
        }
        ["upd", a, b] => GStmt::Upd(num(a)?, num(b)?),
        ["updb", a, b] => GStmt::UpdBody(num(a)?, num(b)?),
        ["updr", a, b, c] => GStmt::UpdRange(num(a)?, num(b)?, num(c)?),
        ["del", a] => GStmt::Del(num(a)?),
        ["delr", a, b] => GStmt::DelRange(num(a)?, num(b)?),
        ["sel", "all"] => GStmt::SelAll,
        ["sel", "cnt"] => GStmt::SelCnt,
        ["sel", "id", a] => GStmt::SelId(num(a)?),
        ["sel", "k", a, b] => GStmt::SelK(num(a)?, num(b)?),
        ["uins", a, b, c] => GStmt::UIns(num(a)?, num(b)?, num(c)?),
        ["udel", a] => GStmt::UDel(num(a)?),
        ["usel"] => GStmt::USel,
        ["ckpt"] => GStmt::Ckpt,
        ["wnew", g] => GStmt::WNew(num(g)?),
        ["wdrop", g] => GStmt::WDrop(num(g)?),
        ["vac"] => GStmt::Vac,
        ["wins", g, a, b] => GStmt::WIns(num(g)?, num(a)?, num(b)?),
        ["wsel", g] => GStmt::WSel(num(g)?),
        _ => return None,
    })
}

/// body text of a row: a self-describing repetition, so that a damaged overflow chain is visible in the row itself
fn body_of(id: u64, len: u64) -> String {
    let unit = format!("b{}x{}_", id, len);
    let mut s = String::with_capacity(len as usize + unit.len());
    while (s.len() as u64) < len {
        s.push_str(&unit);
    }
    s.truncate(len as usize);
    s
}

fn sql_of(st: &GStmt) -> Option<String> {
    Some(match st {
        GStmt::Ins(id, k, len) => format!("INSERT INTO t VALUES ({}, {}, 'n{}', '{}')", id, k, id, body_of(*id, *len)),
        GStmt::Upd(id, k) => format!("UPDATE t SET k = {} WHERE id = {}", k, id),
        GStmt::UpdBody(id, len) => format!("UPDATE t SET body = '{}' WHERE id = {}", body_of(*id, *len), id),
        GStmt::UpdRange(lo, hi, k) => format!("UPDATE t SET k = {} WHERE id >= {} AND id < {}", k, lo, hi),
        GStmt::Del(id) => format!("DELETE FROM t WHERE id = {}", id),
        GStmt::DelRange(lo, hi) => format!("DELETE FROM t WHERE id >= {} AND id < {}", lo, hi),
        GStmt::SelAll => "SELECT id, k, name, body FROM t".to_string(),
        GStmt::SelCnt => "SELECT COUNT(*) FROM t".to_string(),
        GStmt::SelId(x) => format!("SELECT id, k, name, body FROM t WHERE id = {}", x),
        GStmt::SelK(lo, hi) => format!("SELECT id, k FROM t WHERE k >= {} AND k < {}", lo, hi),
        GStmt::UIns(id, code, v) => format!("INSERT INTO u VALUES ({}, 'c{}', {})", id, code, v),
        GStmt::UDel(id) => format!("DELETE FROM u WHERE id = {}", id),
        GStmt::USel => "SELECT id, code, v FROM u".to_string(),
        GStmt::WNew(g) => format!("CREATE TABLE w{} (id BIGINT, v INT)", g),
        GStmt::WDrop(g) => format!("DROP TABLE w{}", g),
        GStmt::WIns(g, id, v) => format!("INSERT INTO w{} VALUES ({}, {})", g, id, v),
        GStmt::WSel(g) => format!("SELECT id, v FROM w{}", g),
        GStmt::Ckpt | GStmt::Vac | GStmt::Bulk(..) => return None,
    })
}

#[derive(Clone, Copy, Debug, PartialEq)]
struct GridCfg {
    page: usize,
    cache: usize,
    pool: usize,
    min_keys: usize,
    siblings: usize,
    ckpt: bool,
}

impl GridCfg {
    fn show(&self) -> String {
        format!(
            "page={},cache={},pool={},minkeys={},siblings={},ckpt={}",
            self.page, self.cache, self.pool, self.min_keys, self.siblings, self.ckpt as u8
        )
    }
}

/// Frames the tree code may hold at once: the root-to-leaf path, the page being split or merged, `siblings` pages on
/// each side of it, the parent, fresh pages. Measured on 2 300 small-cache runs: out-of-memory answers occur up to a
/// cache of 10 pages with 1–2 siblings per side and up to 12 with 3–4, never at 16. A cache below this bound is
/// `cache_too_small`: an explicit out-of-memory error is tolerated there and nowhere else.
fn pin_bound(siblings: usize) -> usize {
    2 * siblings + 10
}

const GRID_PAGES: [usize; 5] = [4096, 8192, 16384, 32768, 65536];
const GRID_CACHES: [usize; 9] = [24, 32, 48, 64, 128, 256, 1024, 4096, 10000];

fn grid_configs(seed: u64, n: u64, small: bool) -> Vec<GridCfg> {
    let mut rng = Rng::new(seed).fork("grid-configs");
    // the reference: the configuration every SQL-level test of the code base runs with
    let mut v = vec![GridCfg { page: 4096, cache: 10000, pool: 2, min_keys: 3, siblings: 2, ckpt: false }];
    while (v.len() as u64) < n.max(2) {
        let siblings = rng.range(1, 4) as usize;
        let cache = if small && v.len() % 3 == 1 {
            // below or just at the pin bound: eviction at every step, out-of-memory tolerated below the bound
            *rng.pick(&[4usize, 8, 12, 16, 20])
        } else {
            *rng.pick(&GRID_CACHES)
        };
        let c = GridCfg {
            page: *rng.pick(&GRID_PAGES),
            cache,
            pool: *rng.pick(&[1usize, 2, 8]),
            min_keys: rng.range(3, 8) as usize,
            siblings,
            ckpt: rng.chance(1, 2),
        };
        if !v.contains(&c) {
            v.push(c);
        }
    }
    v
}

/// configurations for the script grids (`sqlgrid`, `histgrid`): every cache is at or above the pin bound, so that no
/// out-of-memory error is legitimate and any difference at all is a failure
fn script_configs(seed: u64, n: u64) -> Vec<GridCfg> {
    let mut rng = Rng::new(seed).fork("script-configs");
    let mut v = vec![GridCfg { page: 4096, cache: 10000, pool: 2, min_keys: 3, siblings: 2, ckpt: false }];
    while (v.len() as u64) < n.max(2) {
        let siblings = rng.range(1, 4) as usize;
        let b = pin_bound(siblings);
        let cache = *rng.pick(&[b, b, b + 2, 24, 32, 64, 256, 1024, 4096]);
        let c = GridCfg {
            page: *rng.pick(&GRID_PAGES),
            cache: cache.max(b),
            pool: *rng.pick(&[1usize, 2, 8]),
            min_keys: rng.range(3, 8) as usize,
            siblings,
            ckpt: false,
        };
        if !v.contains(&c) {
            v.push(c);
        }
    }
    v
}

fn db_err_class(e: &axmosdb::DatabaseError) -> String {
    let m = e.to_string().to_lowercase();
    if m.contains("out of memory") {
        "err:oom".into()
    } else if m.contains("unique") || m.contains("constraint") || m.contains("duplicate") {
        "err:constraint".into()
    } else if m.contains("parse") {
        "err:parse".into()
    } else if m.contains("binder") || m.contains("bind") {
        "err:bind".into()
    } else if std::env::var("AXH_DEBUG").is_ok() {
        format!("err:other({})", m)
    } else {
        "err:other".into()
    }
}

fn fnv(h: &mut u64, bytes: &[u8]) {
    for b in bytes {
        *h ^= *b as u64;
        *h = h.wrapping_mul(0x100000001b3);
    }
}

/// canonical result of one statement: rows sorted (no statement of the workload has ORDER BY); long cells replaced by
/// length + hash after checking that a body is the repetition it claims to be
fn canon_result(r: Result<axmosdb::runtime::QueryResult, axmosdb::DatabaseError>) -> String {
    use axmosdb::runtime::QueryResult;
    match r {
        Err(e) => db_err_class(&e),
        Ok(QueryResult::RowsAffected(n)) => format!("affected {}", n),
        Ok(QueryResult::Ddl(_)) => "ddl".into(),
        Ok(QueryResult::Rows(rows)) => {
            let mut out: Vec<String> = Vec::new();
            for row in rows.iterrows() {
                let cells: Vec<String> = row
                    .iter()
                    .map(|v| {
                        let s = v.to_string();
                        if s.len() > 40 {
                            let mut h = 0xcbf29ce484222325u64;
                            fnv(&mut h, s.as_bytes());
                            // self-consistency of a body: repetition of its own first unit
                            let t = s.as_str();
                            let ok = match t.find('_') {
                                Some(i) => {
                                    let unit = &t.as_bytes()[..=i];
                                    t.as_bytes().iter().enumerate().all(|(j, b)| *b == unit[j % unit.len()])
                                }
                                None => false,
                            };
                            format!("<{}:{:016x}:{}>", s.len(), h, if ok { "ok" } else { "DAMAGED" })
                        } else {
                            s
                        }
                    })
                    .collect();
                out.push(cells.join("|"));
            }
            out.sort();
            format!("rows {} [{}]", out.len(), out.join(";"))
        }
    }
}

/// A worker thread of the engine panicked while running the statement (the task channel is closed under the caller).
fn is_worker_panic(r: &Result<axmosdb::runtime::QueryResult, axmosdb::DatabaseError>) -> bool {
    matches!(r, Err(e) if e.to_string().contains("channel closed"))
}

/// Runs the workload under one configuration, sending one canonical result per statement (then the final contents).
/// Stops after a statement that killed a worker thread (`panic`).
fn run_workload_into(cfg: GridCfg, stmts: Vec<GStmt>, path: std::path::PathBuf, tx: std::sync::mpsc::Sender<String>) {
    let debug = std::env::var("AXH_DEBUG").is_ok();
    if debug {
        eprintln!("config {}", cfg.show());
    }
    let dbc = axmosdb::DBConfig::new(cfg.page, cfg.cache, cfg.pool, cfg.min_keys, cfg.siblings);
    let db = match axmosdb::Database::create(&path, dbc) {
        Ok(d) => d,
        Err(e) => {
            let _ = tx.send(format!("create-failed {}", db_err_class(&e)));
            return;
        }
    };
    let exec = |sql: &str| -> (String, bool) {
        let r = db.execute(sql);
        if is_worker_panic(&r) { ("panic".to_string(), true) } else { (canon_result(r), false) }
    };
    for sql in ["CREATE TABLE t (id BIGINT, k INT, name TEXT, body TEXT)", "CREATE TABLE u (id BIGINT, code TEXT, v INT, UNIQUE(code))"] {
        let (r, dead) = exec(sql);
        let _ = tx.send(r);
        if dead {
            return;
        }
    }
    for st in &stmts {
        if debug {
            eprintln!("  stmt {:?}", st);
        }
        let (r, dead) = match st {
            GStmt::Ckpt => {
                // the answer is the same ("ok") whether this configuration performs the checkpoint or not
                if cfg.ckpt {
                    match db.flush() {
                        Ok(()) => ("ok".to_string(), false),
                        Err(e) => (db_err_class(&e), false),
                    }
                } else {
                    ("ok".to_string(), false)
                }
            }
            // VACUUM runs under every configuration (it is part of the workload, not of the configuration)
            GStmt::Vac => match db.vacuum() {
                Ok(_) => ("ok".to_string(), false),
                Err(e) => {
                    let dead = e.to_string().contains("channel closed");
                    (if dead { "panic".to_string() } else { db_err_class(&e) }, dead)
                }
            },
            GStmt::Bulk(lo, n, k, len) => {
                let mut out = (format!("affected {}", n), false);
                for id in *lo..*lo + *n {
                    // every single INSERT gets the full time limit
                    let _ = tx.send("<tick>".into());
                    let (r, dead) = exec(&sql_of(&GStmt::Ins(id, *k, *len)).unwrap());
                    if r != "affected 1" {
                        out = (if dead { r } else { format!("{} at id {}", r, id) }, dead);
                        break;
                    }
                }
                out
            }
            other => exec(&sql_of(other).unwrap()),
        };
        let _ = tx.send(r);
        if dead {
            return;
        }
    }
    for sql in ["SELECT id, k, name, body FROM t", "SELECT id, code, v FROM u"] {
        let (r, dead) = exec(sql);
        let _ = tx.send(r);
        if dead {
            return;
        }
    }
    drop(db);
    let _ = tx.send("<end>".into());
}

/// One canonical result per statement + the final contents. A statement that does not answer within the time limit
/// is reported as `hang` (the thread is abandoned), so that a hang is a result like any other.
fn run_workload(cfg: &GridCfg, stmts: &[GStmt]) -> Vec<String> {
    let dir = Scratch::new("grid");
    let path = dir.0.join("c12grid.db");
    let (tx, rx) = std::sync::mpsc::channel::<String>();
    let (c, st) = (*cfg, stmts.to_vec());
    let handle = std::thread::spawn(move || run_workload_into(c, st, path, tx));
    let mut res: Vec<String> = Vec::with_capacity(stmts.len() + 4);
    loop {
        match rx.recv_timeout(std::time::Duration::from_secs(30)) {
            Ok(r) if r == "<end>" => {
                let _ = handle.join();
                break;
            }
            Ok(r) if r == "<tick>" => {}
            Ok(r) => res.push(r),
            Err(std::sync::mpsc::RecvTimeoutError::Timeout) => {
                res.push("hang".into());
                break;
            }
            Err(std::sync::mpsc::RecvTimeoutError::Disconnected) => {
                // the workload thread ended early (worker panic reported as `panic`, or creation failed)
                let _ = handle.join();
                break;
            }
        }
    }
    res
}

/// what a plain ordered map says the statements should answer (diagnostic only: SQL semantics belong to C05)
fn oracle(stmts: &[GStmt]) -> Vec<String> {
    use std::collections::BTreeMap;
    let mut t: BTreeMap<u64, (u64, u64)> = BTreeMap::new(); // id -> (k, body len)
    let mut u: BTreeMap<u64, (u64, u64)> = BTreeMap::new(); // id -> (code, v)
    let mut w: BTreeMap<u64, BTreeMap<u64, u64>> = BTreeMap::new(); // side table -> id -> v
    let cell = |id: u64, len: u64| {
        let s = body_of(id, len);
        if s.len() > 40 {
            let mut h = 0xcbf29ce484222325u64;
            fnv(&mut h, s.as_bytes());
            format!("<{}:{:016x}:ok>", s.len(), h)
        } else {
            s
        }
    };
    let show_t = |t: &BTreeMap<u64, (u64, u64)>, f: &dyn Fn(u64, u64) -> bool, narrow: bool| {
        let mut out: Vec<String> = t
            .iter()
            .filter(|(id, (k, _))| f(**id, *k))
            .map(|(id, (k, len))| if narrow { format!("{}|{}", id, k) } else { format!("{}|{}|n{}|{}", id, k, id, cell(*id, *len)) })
            .collect();
        out.sort();
        format!("rows {} [{}]", out.len(), out.join(";"))
    };
    let show_u = |u: &BTreeMap<u64, (u64, u64)>| {
        let mut out: Vec<String> = u.iter().map(|(id, (c, v))| format!("{}|c{}|{}", id, c, v)).collect();
        out.sort();
        format!("rows {} [{}]", out.len(), out.join(";"))
    };
    let mut res = vec!["ddl".to_string(), "ddl".to_string()];
    for st in stmts {
        res.push(match st {
            GStmt::Ins(id, k, len) => {
                t.insert(*id, (*k, *len));
                "affected 1".into()
            }
            GStmt::Bulk(lo, n, k, len) => {
                for id in *lo..*lo + *n {
                    t.insert(id, (*k, *len));
                }
                format!("affected {}", n)
            }
            GStmt::Upd(id, k) => match t.get_mut(id) {
                Some(r) => {
                    r.0 = *k;
                    "affected 1".into()
                }
                None => "affected 0".into(),
            },
            GStmt::UpdBody(id, len) => match t.get_mut(id) {
                Some(r) => {
                    r.1 = *len;
                    "affected 1".into()
                }
                None => "affected 0".into(),
            },
            GStmt::UpdRange(lo, hi, k) => {
                let mut n = 0;
                for (id, r) in t.iter_mut() {
                    if *id >= *lo && *id < *hi {
                        r.0 = *k;
                        n += 1;
                    }
                }
                format!("affected {}", n)
            }
            GStmt::Del(id) => format!("affected {}", t.remove(id).is_some() as u8),
            GStmt::DelRange(lo, hi) => {
                let ids: Vec<u64> = t.keys().filter(|i| **i >= *lo && **i < *hi).cloned().collect();
                for i in &ids {
                    t.remove(i);
                }
                format!("affected {}", ids.len())
            }
            GStmt::SelAll => show_t(&t, &|_, _| true, false),
            GStmt::SelCnt => format!("rows 1 [{}]", t.len()),
            GStmt::SelId(x) => show_t(&t, &|id, _| id == *x, false),
            GStmt::SelK(lo, hi) => show_t(&t, &|_, k| k >= *lo && k < *hi, true),
            GStmt::UIns(id, code, v) => {
                if u.values().any(|(c, _)| c == code) {
                    "err:constraint".into()
                } else {
                    u.insert(*id, (*code, *v));
                    "affected 1".into()
                }
            }
            GStmt::UDel(id) => format!("affected {}", u.remove(id).is_some() as u8),
            GStmt::USel => show_u(&u),
            GStmt::Ckpt | GStmt::Vac => "ok".into(),
            GStmt::WNew(g) => {
                if w.contains_key(g) {
                    "err:other".into()
                } else {
                    w.insert(*g, BTreeMap::new());
                    "ddl".into()
                }
            }
            GStmt::WDrop(g) => if w.remove(g).is_some() { "ddl".into() } else { "err:bind".into() },
            GStmt::WIns(g, id, v) => match w.get_mut(g) {
                Some(m) => {
                    m.insert(*id, *v);
                    "affected 1".into()
                }
                None => "err:bind".into(),
            },
            GStmt::WSel(g) => match w.get(g) {
                Some(m) => {
                    let mut out: Vec<String> = m.iter().map(|(id, v)| format!("{}|{}", id, v)).collect();
                    out.sort();
                    format!("rows {} [{}]", out.len(), out.join(";"))
                }
                None => "err:bind".into(),
            },
        });
    }
    res.push(show_t(&t, &|_, _| true, false));
    res.push(show_u(&u));
    res
}

fn exec_grid(seed: u64, ncfg: u64, small: bool, stmts: &[GStmt]) -> String {
    exec_grid_with(grid_configs(seed, ncfg, small), stmts)
}

fn exec_grid_with(cfgs: Vec<GridCfg>, stmts: &[GStmt]) -> String {
    if std::env::var("AXH_DEBUG").is_ok() {
        std::panic::set_hook(Box::new(|i| eprintln!("PANIC {}\n{}", i, std::backtrace::Backtrace::force_capture())));
    }
    let reference = run_workload(&cfgs[0], stmts);
    if let Some(i) = reference.iter().position(|r| r.contains("DAMAGED") || r == "err:oom" || r == "panic" || r == "hang") {
        return format!("PROPFAIL reference config={} stmt={} got={}", cfgs[0].show(), i, short(&reference[i]));
    }
    let mut tolerated = 0;
    for c in &cfgs[1..] {
        let got = run_workload(c, stmts);
        let too_small = c.cache < pin_bound(c.siblings);
        for i in 0..reference.len().max(got.len()) {
            let r = reference.get(i).map(|s| s.as_str()).unwrap_or("<missing>");
            let g = got.get(i).map(|s| s.as_str()).unwrap_or("<missing>");
            if r == g {
                continue;
            }
            if g.starts_with("err:oom") && too_small {
                // the one permitted difference: an explicit out-of-memory error from a cache too small for the operation;
                // what follows in this configuration is not compared (statement atomicity after an error belongs to C03)
                tolerated += 1;
                break;
            }
            return format!("PROPFAIL diff config={} stmt={} ref={} got={}", c.show(), i, short(r), short(g));
        }
    }
    let orc = oracle(stmts);
    let diag = match (0..reference.len()).find(|i| orc.get(*i) != reference.get(*i)) {
        Some(i) => format!("oracle-mismatch stmt={} ref={} oracle={}", i, short(&reference[i]), short(orc.get(i).map(|s| s.as_str()).unwrap_or("<none>"))),
        None => "oracle=ok".into(),
    };
    format!("same ## configs={} tolerated_oom={} {}", cfgs.len(), tolerated, diag)
}

fn short(s: &str) -> String {
    if s.len() > 160 { format!("{}…({} bytes)", &s[..160], s.len()) } else { s.to_string() }
}

/// `big` = the workload contains rows of 300 bytes and more (cells that fill a good part of a 4 KiB page, rows that
/// overflow under some or all page sizes); without it every row is below 300 bytes.
fn gen_grid(rng: &mut Rng, n_cfg: u64, big: bool) -> String {
    let n = rng.range(50, 130) as usize;
    let small = rng.chance(1, 2);
    // enough rows that the database outgrows the small caches of the grid under every page size
    const MAX_INSERTS: u64 = 1200;
    let mut inserted = 0u64;
    let mut ids: Vec<u64> = Vec::new();
    let mut next_id = 1u64;
    let mut next_u = 1u64;
    let mut ops: Vec<String> = Vec::new();
    let pick_len = |rng: &mut Rng| -> u64 {
        if !big {
            return if rng.chance(1, 5) { 120 + rng.below(180) } else { rng.below(120) };
        }
        match rng.below(10) {
            0..=4 => rng.below(120),
            5 | 6 => 300 + rng.below(900),
            7 => 1500 + rng.below(3000),
            8 => 5000 + rng.below(15000),
            // larger than a third of a 64 KiB page: overflows under every page size (a log record cannot exceed ~40 KB)
            _ => 22000 + rng.below(16000),
        }
    };
    // enough rows that the database outgrows a 48-page cache of 4 KiB pages in some workloads
    let bulk_rows = if big { *rng.pick(&[12u64, 40]) } else { *rng.pick(&[40u64, 120, 300]) };
    for i in 0..n {
        let any = |rng: &mut Rng, ids: &Vec<u64>| if ids.is_empty() { 1 } else { *rng.pick(ids) };
        let mut r = if i < 6 { 0 } else if i < 9 { 45 } else { rng.below(100) };
        if r < 47 && inserted + 1 + bulk_rows > MAX_INSERTS {
            r = 47 + rng.below(49);
        }
        let op = if r < 40 {
            inserted += 1;
            let id = next_id;
            next_id += 1 + rng.below(2);
            ids.push(id);
            format!("ins {} {} {}", id, rng.below(50), pick_len(rng))
        } else if r < 47 {
            let cnt = 1 + rng.below(bulk_rows);
            inserted += cnt;
            let lo = next_id;
            next_id += cnt + rng.below(3);
            ids.extend(lo..lo + cnt);
            format!("bulk {} {} {} {}", lo, cnt, rng.below(50), pick_len(rng))
        } else if r < 55 {
            format!("upd {} {}", any(rng, &ids), rng.below(50))
        } else if r < 62 {
            format!("updb {} {}", any(rng, &ids), pick_len(rng))
        } else if r < 66 {
            let lo = rng.below(next_id);
            format!("updr {} {} {}", lo, lo + rng.below(40), rng.below(50))
        } else if r < 72 {
            let id = any(rng, &ids);
            ids.retain(|x| *x != id);
            format!("del {}", id)
        } else if r < 76 {
            let lo = rng.below(next_id);
            let hi = lo + rng.below(30);
            ids.retain(|x| !(*x >= lo && *x < hi));
            format!("delr {} {}", lo, hi)
        } else if r < 79 {
            "sel all".to_string()
        } else if r < 82 {
            "sel cnt".to_string()
        } else if r < 86 {
            format!("sel id {}", any(rng, &ids))
        } else if r < 89 {
            let lo = rng.below(50);
            format!("sel k {} {}", lo, lo + rng.below(20))
        } else if r < 93 {
            let id = next_u;
            next_u += 1;
            format!("uins {} {} {}", id, rng.below(30), rng.below(100))
        } else if r < 95 {
            format!("udel {}", 1 + rng.below(next_u))
        } else if r < 96 {
            "usel".to_string()
        } else {
            "ckpt".to_string()
        };
        ops.push(op);
    }
    format!("grid {} {} {} | {}", rng.below(1 << 40), n_cfg, small as u8, ops.join(" ; "))
}

/// Side tables that come and go: `w1` is created, filled and dropped, VACUUM puts its pages on the free list, `w2` is created
/// (its root is a recycled page) and stays EMPTY while unrelated inserts push pages through the small caches of the grid;
/// only then does it get its first rows. A configuration in which the recycled root did not survive its eviction answers
/// differently from one in which it never left the cache.
fn gen_grid_recycle(rng: &mut Rng, n_cfg: u64) -> String {
    let mut ops: Vec<String> = Vec::new();
    let mut next_id = 1u64;
    let bulk = |rng: &mut Rng, ops: &mut Vec<String>, next_id: &mut u64, n: u64| {
        ops.push(format!("bulk {} {} {} {}", *next_id, n, rng.below(50), 40 + rng.below(200)));
        *next_id += n;
    };
    let n0 = 20 + rng.below(40);
    bulk(rng, &mut ops, &mut next_id, n0);
    let mut g = 1u64;
    for round in 0..rng.range(1, 3) {
        ops.push(format!("wnew {}", g));
        for i in 0..rng.range(1, 60) as u64 {
            ops.push(format!("wins {} {} {}", g, i + 1, rng.below(100)));
        }
        if rng.chance(1, 2) {
            ops.push("ckpt".into());
        }
        ops.push(format!("wdrop {}", g));
        ops.push("vac".into());
        g += 1;
        ops.push(format!("wnew {}", g));
        if rng.chance(1, 3) {
            ops.push("ckpt".into());
        }
        // unrelated work: enough pages to turn over a cache of a few dozen pages
        let n1 = 150 + rng.below(250);
        bulk(rng, &mut ops, &mut next_id, n1);
        if rng.chance(1, 2) {
            ops.push("sel cnt".into());
        }
        for i in 0..rng.range(1, 5) as u64 {
            ops.push(format!("wins {} {} {}", g, i + 1, 10 * round as u64 + i));
        }
        ops.push(format!("wsel {}", g));
        g += 1;
    }
    ops.push("sel cnt".into());
    format!("grid {} {} 1 | {}", rng.below(1 << 40), n_cfg, ops.join(" ; "))
}

// ------------------------------------------------------------------------------------------------ script grids
//
// The *same SQL script*, produced by the generators of the `sql` engine (C05: joins, aggregates, ORDER BY/LIMIT,
// DML) and of the `hist` engine (C04: interleaved sessions, commits and rollbacks), executed on databases created with
// different configurations: page 4–64 KiB, cache from the pin bound to 4096 pages, min keys 3–8, siblings 1–4, pool 1/2/8.
//   sqlgrid <config seed> <n configs> m | sql <db> ; <stmt> ; …    answer: the statements' canonical results (the
//                                                                     Lean side answers with the logical model's)
//   sqlgrid <config seed> <n configs> x | sql <db> ; <stmt> ; …    (tables blown up) answer: `same`
//   histgrid <config seed> <n configs> | <hist case>                 answer: `same`
// Any difference between two configurations is a failure (`PROPFAIL diff …`).

/// Runs `job` in a thread and collects what it sends until it sends `<end>`; a result that does not arrive within
/// `secs` seconds is recorded as `hang` and the thread is abandoned.
fn collect_with_watchdog<F>(job: F, secs: u64) -> Vec<String>
where
    F: FnOnce(std::sync::mpsc::Sender<String>) + Send + 'static,
{
    let (tx, rx) = std::sync::mpsc::channel::<String>();
    let handle = std::thread::spawn(move || job(tx));
    let mut res: Vec<String> = Vec::new();
    loop {
        match rx.recv_timeout(std::time::Duration::from_secs(secs)) {
            Ok(r) if r == "<end>" => {
                let _ = handle.join();
                break;
            }
            Ok(r) => res.push(r),
            Err(std::sync::mpsc::RecvTimeoutError::Timeout) => {
                res.push("hang".into());
                break;
            }
            Err(std::sync::mpsc::RecvTimeoutError::Disconnected) => {
                let _ = handle.join();
                break;
            }
        }
    }
    res
}

fn run_sql_script(cfg: &GridCfg, case_line: &str) -> Vec<String> {
    use super::sql;
    let dir = Scratch::new("sqlgrid");
    let path = dir.0.join("c12sql.db");
    let (c, line) = (*cfg, case_line.to_string());
    collect_with_watchdog(
        move |tx| {
            sql::install_worker_panic_recorder();
            let Some((tables, stmts)) = sql::parse_case(&line) else {
                let _ = tx.send("bad-op".into());
                return;
            };
            let dbc = axmosdb::DBConfig::new(c.page, c.cache, c.pool, c.min_keys, c.siblings);
            let db = match axmosdb::Database::create(&path, dbc) {
                Ok(d) => d,
                Err(e) => {
                    let _ = tx.send(format!("create-failed {}", db_err_class(&e)));
                    return;
                }
            };
            if let Err(e) = sql::load(&db, &tables) {
                let _ = tx.send(format!("load-failed oom={} {:?}", e.to_lowercase().contains("out of memory"), sql::take_worker_panic()));
                return;
            }
            let mut failed_dml = false;
            for st in &stmts {
                // as in the `sql` engine: what a failed INSERT/UPDATE/DELETE leaves behind is C03's business
                if failed_dml {
                    let _ = tx.send("-".into());
                    continue;
                }
                let o = sql::run_stmt(&db, &tables, st);
                // (as in the `sql` engine: a statement the parser or the binder rejects was never executed, the comparison goes on)
                if !matches!(st, sql::Stmt::Select(_)) && o.starts_with('E') && o != "Ebind" && o != "Eparse" {
                    failed_dml = true;
                }
                if let Some(p) = sql::take_worker_panic() {
                    let _ = tx.send(format!("panic@{}", p));
                    return;
                }
                let _ = tx.send(o);
            }
            drop(db);
            let _ = tx.send("<end>".into());
        },
        30,
    )
}

fn compare_script_runs(cfgs: &[GridCfg], runs: &[Vec<String>]) -> Option<String> {
    let reference = &runs[0];
    if let Some(i) = reference
        .iter()
        .position(|r| r == "hang" || r.starts_with("panic@") || r.starts_with("create-failed") || r.starts_with("load-failed"))
    {
        return Some(format!("PROPFAIL reference config={} stmt={} got={}", cfgs[0].show(), i, short(&reference[i])));
    }
    for (c, got) in cfgs.iter().zip(runs.iter()).skip(1) {
        for i in 0..reference.len().max(got.len()) {
            let r = reference.get(i).map(|s| s.as_str()).unwrap_or("<missing>");
            let g = got.get(i).map(|s| s.as_str()).unwrap_or("<missing>");
            if r != g {
                return Some(format!("PROPFAIL diff config={} stmt={} ref={} got={}", c.show(), i, short(r), short(g)));
            }
        }
    }
    None
}

fn exec_sqlgrid(seed: u64, ncfg: u64, with_model: bool, case_line: &str) -> String {
    if super::sql::parse_case(case_line).is_none() {
        return "bad-op".into();
    }
    let cfgs = script_configs(seed, ncfg);
    let runs: Vec<Vec<String>> = cfgs.iter().map(|c| run_sql_script(c, case_line)).collect();
    match compare_script_runs(&cfgs, &runs) {
        Some(f) => f,
        // all configurations agree. Mode `m`: the answer is the script's canonical results, which the Lean side computes
        // with the logical model (that model takes no configuration argument). Mode `x` (tables blown up beyond what the
        // list-based model answers in reasonable time): the answer is `same`.
        None if with_model => format!("{} ## configs={}", runs[0].join(" ; "), cfgs.len()),
        None => format!("same ## configs={} stmts={}", cfgs.len(), runs[0].len()),
    }
}

fn exec_histgrid(seed: u64, ncfg: u64, case_line: &str) -> String {
    if super::hist::parse_case(case_line).is_none() {
        return "bad-op".into();
    }
    let cfgs = script_configs(seed, ncfg);
    let runs: Vec<Vec<String>> = cfgs
        .iter()
        .map(|c| {
            let (c, line) = (*c, case_line.to_string());
            let out = collect_with_watchdog(
                move |tx| {
                    let dbc = axmosdb::DBConfig::new(c.page, c.cache, c.pool, c.min_keys, c.siblings);
                    let o = super::hist::run_case_with(&line, dbc);
                    let _ = tx.send(o);
                    let _ = tx.send("<end>".into());
                },
                60,
            );
            // one answer per operation of the history (the gating part of the `hist` engine's line)
            match out.first() {
                Some(o) if o != "hang" => o.split(" ## ").next().unwrap_or("").split(" ; ").map(|x| x.to_string()).collect(),
                _ => vec!["hang".to_string()],
            }
        })
        .collect();
    match compare_script_runs(&cfgs, &runs) {
        Some(f) => f,
        None => format!("same ## configs={} ops={}", cfgs.len(), runs[0].len()),
    }
}

/// `factor` copies of every row of every table of a `sql` case (same statements): trees of more than one page under
/// the small page sizes, so that geometry and eviction can matter at all
fn inflate_sql_case(line: &str, factor: usize) -> Option<String> {
    use super::sql;
    let (mut tables, stmts) = sql::parse_case(line)?;
    for t in tables.iter_mut() {
        let base = t.rows.clone();
        for _ in 1..factor {
            t.rows.extend(base.iter().cloned());
        }
    }
    Some(format!("sql {} ; {}", sql::show_db(&tables), stmts.iter().map(sql::show_stmt).collect::<Vec<_>>().join(" ; ")))
}

fn gen_script_grids(rng: &mut Rng, tier: Tier, lines: &mut Vec<String>) {
    use super::sql;
    let (n_sql, n_hist) = if tier == Tier::Thorough { (240, 300) } else { (24, 30) };
    // scripts of the `sql` engine's generator
    let src = super::sql::SqlEngine.gen_cases(&mut rng.fork("sqlgrid-src"), Tier::Quick);
    let mut r = rng.fork("sqlgrid");
    let mut taken = 0;
    for case in src.iter() {
        if taken >= n_sql {
            break;
        }
        let Some((tables, _)) = sql::parse_case(&case.line) else { continue };
        let max_rows = tables.iter().map(|t| t.rows.len()).max().unwrap_or(0).max(1);
        // keep the largest possible join below ~250 000 combinations (the engine joins by nested loops, and the Lean
        // model that answers the same script is a plain list program)
        let budget = match tables.len() {
            // a statement may join a table with itself up to three times
            1 => 60,
            2 => 40,
            _ => 16,
        };
        let factor = (budget / max_rows).clamp(1, 60);
        let Some(inflated) = inflate_sql_case(&case.line, factor) else { continue };
        if inflated.len() > 60_000 {
            continue;
        }
        // alternately: the script as generated, checked against the logical model too; the script on blown-up tables
        if taken % 2 == 0 {
            lines.push(format!("sqlgrid {} {} m | {}", r.below(1 << 40), 8, case.line));
        } else {
            lines.push(format!("sqlgrid {} {} x | {}", r.below(1 << 40), 8, inflated));
        }
        taken += 1;
    }
    // histories of the `hist` engine's generator
    let hsrc = super::hist::HistEngine.gen_cases(&mut rng.fork("histgrid-src"), Tier::Quick);
    let stride = (hsrc.len() / n_hist).max(1);
    let mut rh = rng.fork("histgrid");
    for case in hsrc.iter().step_by(stride).take(n_hist) {
        lines.push(format!("histgrid {} {} | {}", rh.below(1 << 40), 6, case.line));
    }
}

fn gen_seq(rng: &mut Rng) -> String {
    let cap = match rng.below(10) {
        0 => 0,
        1 | 2 => 1,
        3 | 4 => rng.range(2, 4) as u64,
        5 | 6 | 7 => rng.range(5, 16) as u64,
        _ => rng.range(17, 64) as u64,
    };
    let n_ops = rng.range(4, 30) as usize + if rng.chance(1, 3) { rng.range(20, 120) as usize } else { 0 };
    let pages = (cap.max(1) * rng.range(1, 3) as u64 + rng.below(4)).max(2);
    // op mix: a profile per case so that some cases are pin-heavy (OOM), some clear-heavy, …
    let pin_w = *rng.pick(&[1u64, 3, 8, 16]);
    let unpin_w = *rng.pick(&[1u64, 3, 8]);
    let clear_w = *rng.pick(&[0u64, 1, 1, 3]);
    let rm_w = *rng.pick(&[0u64, 1, 2]);
    let setcap_w = *rng.pick(&[0u64, 0, 0, 1]);
    let mut ops: Vec<String> = Vec::new();
    let mut pins = 0u64;
    for _ in 0..n_ops {
        let total = 12 + 5 + pin_w + unpin_w + 3 + 3 + 1 + 2 + rm_w + clear_w + setcap_w + 1;
        let mut r = rng.below(total);
        let mut take = |w: u64| {
            if r < w {
                true
            } else {
                r -= w;
                false
            }
        };
        let p = 1 + rng.below(pages);
        let extra = if rng.chance(1, 8) { 1 } else { 0 };
        let k = if pins == 0 { 0 } else { rng.below(pins + extra) };
        let v = if rng.chance(1, 20) { rng.next_u64() >> 1 } else { rng.below(1000) };
        let op = if take(12) {
            format!("ins {} {} {}", p, v, rng.below(2))
        } else if take(5) {
            format!("get {}", p)
        } else if take(pin_w) {
            pins += 1;
            format!("pin {}", p)
        } else if take(unpin_w) {
            format!("unpin {}", k)
        } else if take(3) {
            format!("hread {}", k)
        } else if take(3) {
            format!("hwrite {} {}", k, v)
        } else if take(1) {
            format!("hdirty {}", k)
        } else if take(2) {
            "evict".to_string()
        } else if take(rm_w) {
            format!("rm {}", p)
        } else if take(clear_w) {
            if rng.chance(1, 4) { "drain".to_string() } else { "clear".to_string() }
        } else if take(setcap_w) {
            if rng.chance(1, 3) {
                // tens of thousands of evictions in one operation (the eviction counter of the cache is 16 bits wide)
                format!("churn {}", *rng.pick(&[3u64, 40, 70_000]))
            } else {
                format!("setcap {}", rng.below(cap + 4))
            }
        } else {
            "stat".to_string()
        };
        ops.push(op);
    }
    format!("seq {} | {}", cap, ops.join(" ; "))
}

fn gen_pgr(rng: &mut Rng) -> String {
    let cap = match rng.below(10) {
        0 | 1 => 1,
        2 | 3 | 4 => rng.range(2, 4) as u64,
        5 | 6 | 7 => rng.range(5, 16) as u64,
        _ => rng.range(17, 64) as u64,
    };
    let ps = if rng.chance(3, 4) { 4096 } else { *rng.pick(&[8192u64, 16384, 32768, 65536]) };
    let n_alloc = (cap * rng.range(1, 3) as u64 + rng.below(4)).clamp(2, 90);
    let n_ops = rng.range(6, 40) as usize + if rng.chance(1, 3) { rng.range(20, 100) as usize } else { 0 };
    let pin_w = *rng.pick(&[0u64, 1, 3, 8]);
    let unpin_w = *rng.pick(&[1u64, 3, 8]);
    let flush_w = *rng.pick(&[0u64, 1, 1, 2]);
    let reopen_w = *rng.pick(&[0u64, 0, 1]);
    // flushing while frames are pinned detaches them; keep that out of most cases
    let flush_pinned_ok = rng.chance(1, 4);
    let mut ops: Vec<String> = Vec::new();
    let mut allocated = 0u64;
    let mut pins = 0u64;
    let mut live: Vec<u64> = Vec::new();
    for _ in 0..n_ops {
        if allocated < n_alloc && (allocated < 2 || rng.chance(2, 5)) {
            allocated += 1;
            ops.push("alloc".into());
            continue;
        }
        let total = 8 + 8 + pin_w + unpin_w + 2 + 3 + flush_w + reopen_w + 3;
        let mut r = rng.below(total);
        let mut take = |w: u64| {
            if r < w {
                true
            } else {
                r -= w;
                false
            }
        };
        let p = if rng.chance(1, 25) { rng.below(allocated + 3) } else { 1 + rng.below(allocated.max(1)) };
        let extra = if rng.chance(1, 8) { 1 } else { 0 };
        let k = if pins == 0 { 0 } else { rng.below(pins + extra) };
        let v = if rng.chance(1, 20) { rng.next_u64() >> 1 } else { 1 + rng.below(1000) };
        let op = if take(8) {
            format!("read {}", p)
        } else if take(8) {
            format!("write {} {}", p, v)
        } else if take(pin_w) {
            live.push(pins);
            pins += 1;
            format!("pin {}", p)
        } else if take(unpin_w) {
            live.retain(|h| *h != k);
            format!("unpin {}", k)
        } else if take(2) {
            format!("hread {}", k)
        } else if take(3) {
            format!("hwrite {} {}", k, v)
        } else if take(flush_w + reopen_w) {
            if !flush_pinned_ok {
                for h in live.drain(..) {
                    ops.push(format!("unpin {}", h));
                }
            }
            if rng.below(flush_w + reopen_w) < flush_w { "flush".to_string() } else { "reopen".to_string() }
        } else {
            format!("disk {}", p.max(1))
        };
        ops.push(op);
    }
    // every case ends by reading everything back, through the cache and (after a checkpoint) from the file
    if rng.chance(1, 2) {
        if !flush_pinned_ok {
            for h in live.drain(..) {
                ops.push(format!("unpin {}", h));
            }
        }
        ops.push("flush".into());
        for p in 1..=allocated {
            ops.push(format!("disk {}", p));
        }
    }
    for p in 1..=allocated {
        ops.push(format!("read {}", p));
    }
    format!("pgr {} {} | {}", cap, ps, ops.join(" ; "))
}

fn gen_cfg(rng: &mut Rng) -> String {
    let page = match rng.below(8) {
        0 => rng.below(5000),
        1 => *rng.pick(&[0u64, 1, 4095, 4096, 4097, 8191, 8192, 8193, 65535, 65536, 65537, 1 << 20, 1 << 40]),
        2 => 1u64 << rng.below(63),
        3 => (1u64 << rng.below(62)) + 1,
        _ => rng.below(140_000),
    };
    let cache = match rng.below(8) {
        0 => *rng.pick(&[0u64, 1, 48, 128, 1024, 10000, 65535, 65536, 65537, 100_000]),
        1 => rng.below(1 << 40),
        _ => rng.below(200_000),
    };
    let pool = rng.below(12);
    let mk = if rng.chance(1, 5) { rng.below(1000) } else { rng.below(12) };
    let sib = if rng.chance(1, 5) { rng.below(1000) } else { rng.below(8) };
    format!("cfg {} {} {} {} {}", page, cache, pool, mk, sib)
}

fn tags_of(line: &str, out: &str) -> Vec<String> {
    let mut tags: Vec<String> = Vec::new();
    let ws: Vec<&str> = line.split(' ').collect();
    let kind = ws[0];
    tags.push(kind.to_string());
    let g = out.split(" ## ").next().unwrap_or("");
    match kind {
        "seq" | "pgr" => {
            let cap: u64 = ws[1].parse().unwrap_or(0);
            tags.push(
                match cap {
                    0 => "cap0",
                    1 => "cap1",
                    2..=4 => "cap2-4",
                    5..=16 => "cap5-16",
                    _ => "cap17-64",
                }
                .to_string(),
            );
            if kind == "pgr" && ws[2] != "4096" {
                tags.push("bigpage".into());
            }
            let body = line.split(" | ").nth(1).unwrap_or("");
            let mut kinds: Vec<&str> = body.split(" ; ").map(|o| o.split(' ').next().unwrap_or("")).collect();
            let n_ops = kinds.len();
            kinds.sort();
            kinds.dedup();
            for k in kinds {
                tags.push(format!("op:{}", k));
            }
            tags.push(if n_ops > 50 { "long".into() } else { "short".into() });
            let outs: Vec<&str> = g.split(" ; ").collect();
            let has = |f: &dyn Fn(&str) -> bool| outs.iter().any(|o| f(o));
            if has(&|o| o == "oom") {
                tags.push("out:oom".into());
            }
            if has(&|o| o == "io") {
                tags.push("out:io".into());
            }
            if has(&|o| o.contains("ev=")) {
                tags.push("out:evict".into());
            }
            if has(&|o| o.contains("ev=") && o.ends_with(":1")) {
                tags.push("out:evict-dirty".into());
            }
            if has(&|o| o.starts_with("hit")) {
                tags.push("out:hit".into());
            }
            if has(&|o| o == "miss") {
                tags.push("out:miss".into());
            }
            if has(&|o| o == "rep") {
                tags.push("out:replace".into());
            }
            if has(&|o| o == "nohandle") {
                tags.push("out:nohandle".into());
            }
            if has(&|o| o == "eof") {
                tags.push("out:eof".into());
            }
            let nontrivial = if kind == "seq" {
                has(&|o| o.contains("ev=") || o == "oom" || (o.starts_with("clear [") && o != "clear []"))
            } else {
                // some page went to the file and was looked at again, or memory ran out
                let allocs = outs.iter().filter(|o| o.starts_with('a')).count() as u64;
                allocs > cap.max(1) || body.contains("flush") || body.contains("reopen") || has(&|o| o == "oom")
            };
            if nontrivial {
                tags.push("nt".into());
            }
        }
        "grid" | "gridx" => {
            tags.push("nt".into());
            if (kind == "grid" && ws[3] == "1") || (kind == "gridx" && ws[2].parse::<usize>().unwrap_or(0) < pin_bound(ws[5].parse::<usize>().unwrap_or(1))) {
                tags.push("cache_too_small".into());
            }
            if out.contains("tolerated_oom=") && !out.contains("tolerated_oom=0") {
                tags.push("out:tolerated-oom".into());
            }
            if out.contains("oracle-mismatch") {
                tags.push("out:oracle-mismatch".into());
            }
            let body = line.split(" | ").nth(1).unwrap_or("");
            let max_len = body
                .split(" ; ")
                .filter(|o| o.starts_with("ins ") || o.starts_with("bulk ") || o.starts_with("updb "))
                .filter_map(|o| o.rsplit(' ').next().and_then(|x| x.parse::<u64>().ok()))
                .max()
                .unwrap_or(0);
            if max_len >= 300 {
                tags.push("bigrows".into());
            }
            if max_len > 21000 {
                tags.push("overflow-64k".into());
            }
            let rows: u64 = body
                .split(" ; ")
                .map(|o| {
                    let w: Vec<&str> = o.split(' ').collect();
                    match w[0] {
                        "ins" => 1,
                        "bulk" => w[2].parse::<u64>().unwrap_or(0),
                        _ => 0,
                    }
                })
                .sum();
            tags.push(if rows > 1000 { "rows>1000".into() } else { "rows<=1000".into() });
            if body.contains("ckpt") {
                tags.push("op:ckpt".into());
            }
        }
        "sqlgrid" | "histgrid" => {
            tags.push("nt".into());
            if kind == "sqlgrid" {
                tags.push(if ws[3] == "m" { "sqlgrid:vs-model".into() } else { "sqlgrid:blown-up".into() });
                if line.contains(" join ") {
                    tags.push("sqlgrid:join".into());
                }
            }
        }
        "cfg" => {
            tags.push("nt".into());
            let cache: u64 = ws[2].parse().unwrap_or(0);
            if cache >= 65536 {
                tags.push("cache-over-u16".into());
            }
            if ws[4].parse::<u64>().unwrap_or(0) >= 256 || ws[5].parse::<u64>().unwrap_or(0) >= 256 {
                tags.push("over-u8".into());
            }
        }
        _ => {}
    }
    tags
}

impl Engine for CacheEngine {
    fn gen_cases(&self, rng: &mut Rng, tier: Tier) -> Vec<Case> {
        let scale = if tier == Tier::Thorough { 10 } else { 1 };
        let mut lines: Vec<String> = Vec::new();
        let mut r_seq = rng.fork("seq");
        for _ in 0..(2500 * scale) {
            lines.push(gen_seq(&mut r_seq));
        }
        let mut r_pgr = rng.fork("pgr");
        for _ in 0..(1200 * scale) {
            lines.push(gen_pgr(&mut r_pgr));
        }
        let mut r_cfg = rng.fork("cfg");
        for _ in 0..(150 * scale) {
            lines.push(gen_cfg(&mut r_cfg));
        }
        let mut r_grid = rng.fork("grid");
        for i in 0..(8 * scale) {
            // 6 of 8 workloads stay below 300 bytes per row; 2 of 8 carry large rows (region `bigrows`)
            lines.push(gen_grid(&mut r_grid, 12, i % 4 == 3));
        }
        let mut r_rec = rng.fork("grid-recycle");
        for _ in 0..(2 * scale) {
            lines.push(gen_grid_recycle(&mut r_rec, 8));
        }
        gen_script_grids(rng, tier, &mut lines);
        // Tags describe what the case reaches on the real code (outcome classes), so they are measured, not guessed.
        // The cases are run in supervised child processes (an abort of the code under test must not kill `gen`);
        // grid cases are too slow to run twice and are tagged from their text alone.
        let dir = Scratch::new("gen");
        let cp = dir.0.join("cases");
        let op = dir.0.join("outs");
        let slow = |l: &str| l.starts_with("grid ") || l.starts_with("sqlgrid ") || l.starts_with("histgrid ");
        let fast: Vec<&String> = lines.iter().filter(|l| !slow(l)).collect();
        std::fs::write(&cp, fast.iter().map(|l| format!("{}\n", l)).collect::<String>()).unwrap();
        crate::supervise::run("cache", None, self.timeout_ms(), cp.to_str().unwrap(), op.to_str().unwrap(), 8);
        let outs_text = std::fs::read_to_string(&op).unwrap_or_default();
        let mut outs = outs_text.lines();
        lines
            .iter()
            .map(|line| {
                let out = if slow(line) { "" } else { outs.next().unwrap_or("") };
                Case { line: line.clone(), tags: tags_of(line, out) }
            })
            .collect()
    }

    fn exec(&mut self, line: &str) -> String {
        let ws: Vec<&str> = line.trim().split(' ').filter(|w| !w.is_empty()).collect();
        match ws.as_slice() {
            ["seq", cap, "|", rest @ ..] => {
                let Some(cap) = num(cap) else { return "bad-op".into() };
                let ops: Option<Vec<COp>> = split_ops(rest).iter().map(|o| parse_cop(o)).collect();
                match ops {
                    Some(ops) => exec_seq(cap, &ops),
                    None => "bad-op".into(),
                }
            }
            ["pgr", cap, ps, "|", rest @ ..] => {
                let (Some(cap), Some(ps)) = (num(cap), num(ps)) else { return "bad-op".into() };
                if ![4096, 8192, 16384, 32768, 65536].contains(&ps) || cap > 200_000 {
                    return "bad-op".into();
                }
                let ops: Option<Vec<POp>> = split_ops(rest).iter().map(|o| parse_pop(o)).collect();
                match ops {
                    Some(ops) => exec_pgr(cap, ps, &ops),
                    None => "bad-op".into(),
                }
            }
            ["grid", seed, ncfg, small, "|", rest @ ..] => {
                let (Some(seed), Some(ncfg)) = (num(seed), num(ncfg)) else { return "bad-op".into() };
                let small = match *small {
                    "0" => false,
                    "1" => true,
                    _ => return "bad-op".into(),
                };
                if !(2..=64).contains(&ncfg) {
                    return "bad-op".into();
                }
                let stmts: Option<Vec<GStmt>> = split_ops(rest).iter().map(|o| parse_gstmt(o)).collect();
                match stmts {
                    Some(st) => exec_grid(seed, ncfg, small, &st),
                    None => "bad-op".into(),
                }
            }
            ["sqlgrid", seed, ncfg, mode, "|", ..] => {
                let (Some(seed), Some(ncfg)) = (num(seed), num(ncfg)) else { return "bad-op".into() };
                if !(2..=64).contains(&ncfg) || !(*mode == "m" || *mode == "x") {
                    return "bad-op".into();
                }
                let Some((_, script)) = line.split_once(" | ") else { return "bad-op".into() };
                exec_sqlgrid(seed, ncfg, *mode == "m", script.trim())
            }
            ["histgrid", seed, ncfg, "|", ..] => {
                let (Some(seed), Some(ncfg)) = (num(seed), num(ncfg)) else { return "bad-op".into() };
                if !(2..=64).contains(&ncfg) {
                    return "bad-op".into();
                }
                let Some((_, script)) = line.split_once(" | ") else { return "bad-op".into() };
                exec_histgrid(seed, ncfg, script.trim())
            }
            ["gridx", page, cache, pool, mk, sib, ckpt, "|", rest @ ..] => {
                // the reference configuration against one explicitly given configuration
                let (Some(page), Some(cache), Some(pool), Some(mk), Some(sib)) = (num(page), num(cache), num(pool), num(mk), num(sib))
                else {
                    return "bad-op".into();
                };
                let ckpt = match *ckpt {
                    "0" => false,
                    "1" => true,
                    _ => return "bad-op".into(),
                };
                if ![4096, 8192, 16384, 32768, 65536].contains(&page) || cache == 0 || cache > 100_000 || pool == 0 || pool > 16 || mk < 2 || mk > 16 || sib == 0 || sib > 8 {
                    return "bad-op".into();
                }
                let stmts: Option<Vec<GStmt>> = split_ops(rest).iter().map(|o| parse_gstmt(o)).collect();
                let Some(st) = stmts else { return "bad-op".into() };
                let cfgs = vec![
                    GridCfg { page: 4096, cache: 10000, pool: 2, min_keys: 3, siblings: 2, ckpt: false },
                    GridCfg { page: page as usize, cache: cache as usize, pool: pool as usize, min_keys: mk as usize, siblings: sib as usize, ckpt },
                ];
                exec_grid_with(cfgs, &st)
            }
            ["cfg", a, b, c, d, e] => match (num(a), num(b), num(c), num(d), num(e)) {
                (Some(a), Some(b), Some(c), Some(d), Some(e)) => exec_cfg(a, b, c, d, e),
                _ => "bad-op".into(),
            },
            _ => "bad-op".into(),
        }
    }

    fn timeout_ms(&self) -> u64 {
        90_000
    }
}

/// Content of `lean/AxVerif/Generated/<Engine>.lean`, if this engine extracts constants from the code.
pub fn generated() -> Option<(&'static str, String)> {
    let c = vc::config_constants();
    let s = format!(
        "/- REGENERATED on every run by `axh extract` from values evaluated out of /repo. Do not edit. -/\n\
         namespace AxVerif.Generated\n\n\
         /-- MIN_PAGE_SIZE, MAX_PAGE_SIZE, DEFAULT_CACHE_SIZE, and page size / min keys / siblings of `DBConfig::default()` -/\n\
         def cacheConsts : List Nat := [{}, {}, {}, {}, {}, {}]\n\n\
         end AxVerif.Generated\n",
        c[0], c[1], c[2], c[3], c[4], c[5]
    );
    Some(("Cache.lean", s))
}
