//! Engine `wal` (C17): the real `WriteAheadLog` on a file in a scratch directory against the Lean model.
//!
//! Case kinds
//!   seq | op ; op ; …        one log, created fresh, ops applied in order; one result token per op
//!       push T K U R         append (LSN assigned as `Pager::push_to_log` does) a record of transaction T, kind K
//!                            (RecordType discriminant) with U undo and R redo bytes; the remaining header fields and
//!                            the payload bytes are the fixed functions of (T, K) below      → `ok <lsn>` | `err <class>`
//!       force                `flush()` (writes + fsync)                                      → `ok` | `err <class>`
//!       truncate             `truncate()`                                                    → `ok` | `err <class>`
//!       reopen               drop (the log's Drop forces) and open again                     → `ok` | `err <class>`
//!       crash                the file as it is on disk now survives, the log object does not; open again
//!       read K               everything the reader returns with read-ahead K                 → `[rec,rec,…]` | `err <class>`
//!       image                the file itself, block by block (number, used bytes, first/last LSN, digest of the used
//!                            data area), read by the harness with nothing but the layout                 → `{blk,blk,…}`
//!   rec LSN T K PREV OID ROW UNDOHEX REDOHEX     byte image of one record + decode of that image
use super::{Case, Engine, Tier};
use crate::rng::Rng;
use crate::util::{hex, unhex};
use axmosdb::verif::wal as fw;
use std::path::PathBuf;
use std::sync::atomic::{AtomicU64, Ordering};

pub struct WalEngine;

static COUNTER: AtomicU64 = AtomicU64::new(0);

fn scratch_dir() -> PathBuf {
    let n = COUNTER.fetch_add(1, Ordering::Relaxed);
    let base = std::env::var("AXH_WAL_TMP").map(PathBuf::from).unwrap_or_else(|_| std::env::temp_dir());
    base.join(format!("axv-wal-{}-{}", std::process::id(), n))
}

struct DirGuard(PathBuf);
impl Drop for DirGuard {
    fn drop(&mut self) {
        let _ = std::fs::remove_dir_all(&self.0);
    }
}

const KINDS: [u8; 10] = [0, 1, 2, 3, 6, 7, 8, 9, 10, 11];

/// header fields and payload bytes of the record `push T K U R` stands for
pub fn mk_rec(tid: u64, kind: u8, ulen: usize, rlen: usize) -> fw::Rec {
    let dml = kind >= 6;
    fw::Rec {
        lsn: 0,
        tid,
        prev_lsn: if tid % 2 == 1 { Some(tid / 2) } else { None },
        object_id: if dml { Some(tid % 7 + 1) } else { None },
        row_id: if dml { Some(tid * 3) } else { None },
        kind,
        undo: (0..ulen).map(|i| ((tid % 256) as usize * 7 + i * 3 + 1) as u8).collect(),
        redo: (0..rlen).map(|i| ((tid % 256) as usize * 11 + i * 5 + 2) as u8).collect(),
        total_size: 0,
    }
}

fn fnv(parts: &[&[u8]]) -> u32 {
    let mut h: u32 = 2166136261;
    for p in parts {
        for b in *p {
            h = (h ^ (*b as u32)).wrapping_mul(16777619);
        }
    }
    h
}

fn opt(o: Option<u64>) -> String {
    match o {
        Some(v) => v.to_string(),
        None => "-".into(),
    }
}

fn show_rec(r: &fw::Rec) -> String {
    format!(
        "{}:{}:{}:{}:{}:{}:{}:{}:{}:{:08x}",
        r.lsn,
        r.tid,
        r.kind,
        opt(r.prev_lsn),
        opt(r.object_id),
        opt(r.row_id),
        r.undo.len(),
        r.redo.len(),
        r.total_size,
        fnv(&[&r.undo, &r.redo])
    )
}

fn err_class(e: &std::io::Error) -> &'static str {
    use std::io::ErrorKind::*;
    match e.kind() {
        InvalidInput => "toolarge",
        StorageFull => "full",
        UnexpectedEof => "eof",
        NotFound => "notfound",
        _ => "io",
    }
}

fn parse_opt(s: &str) -> Option<Option<u64>> {
    if s == "-" { Some(None) } else { s.parse().ok().map(Some) }
}

fn stats_diag(w: &fw::Wal) -> String {
    let s = w.stats();
    format!("tb={} te={} pend={} last={}", s.total_blocks, s.total_entries, s.pending_blocks, opt(w.last_lsn()))
}

fn run_seq(ops: &[&str]) -> String {
    let dir = scratch_dir();
    if std::fs::create_dir_all(&dir).is_err() {
        return "err scratch".into();
    }
    let _guard = DirGuard(dir.clone());
    let path = dir.join("wal.log");
    let snap = dir.join("wal.snap");
    let mut wal = match fw::Wal::create(&path) {
        Ok(w) => Some(w),
        Err(_) => return "err create".into(),
    };
    let mut outs: Vec<String> = Vec::new();
    let mut diag: Vec<String> = Vec::new();
    for op in ops {
        let ws: Vec<&str> = op.split_whitespace().collect();
        // validate the op first: a malformed op makes the whole case `bad-op`
        let parsed: Option<()> = match ws.as_slice() {
            ["push", t, k, u, r] => (|| {
                t.parse::<u64>().ok().filter(|t| *t < (1 << 32))?;
                let k = k.parse::<u8>().ok()?;
                fw::record_type_of(k)?;
                let u = u.parse::<usize>().ok()?;
                let r = r.parse::<usize>().ok()?;
                if u > 65535 || r > 65535 { None } else { Some(()) }
            })(),
            ["force"] | ["truncate"] | ["reopen"] | ["crash"] | ["image"] => Some(()),
            ["read", k] => k.parse::<usize>().ok().filter(|k| *k <= 64).map(|_| ()),
            _ => None,
        };
        if parsed.is_none() {
            return "bad-op".into();
        }
        let Some(w) = wal.as_mut() else {
            outs.push("dead".into());
            diag.push("dead".into());
            continue;
        };
        match ws.as_slice() {
            ["push", t, k, u, r] => {
                let rec = mk_rec(t.parse().unwrap(), k.parse().unwrap(), u.parse().unwrap(), r.parse().unwrap());
                match w.append(&rec).unwrap() {
                    Ok(lsn) => outs.push(format!("ok {}", lsn)),
                    Err(e) => outs.push(format!("err {}", err_class(&e))),
                }
            }
            ["force"] => match w.flush() {
                Ok(()) => outs.push("ok".into()),
                Err(e) => outs.push(format!("err {}", err_class(&e))),
            },
            ["truncate"] => match w.truncate() {
                Ok(()) => outs.push("ok".into()),
                Err(e) => outs.push(format!("err {}", err_class(&e))),
            },
            ["reopen"] => {
                drop(wal.take());
                match fw::Wal::open(&path) {
                    Ok(w2) => {
                        wal = Some(w2);
                        outs.push("ok".into());
                    }
                    Err(e) => outs.push(format!("err {}", err_class(&e))),
                }
            }
            ["crash"] => {
                // what is on disk now survives; the forcing Drop of the log object must not reach the file
                let copied = std::fs::copy(&path, &snap).is_ok();
                drop(wal.take());
                if !copied || std::fs::rename(&snap, &path).is_err() {
                    return "err scratch".into();
                }
                match fw::Wal::open(&path) {
                    Ok(w2) => {
                        wal = Some(w2);
                        outs.push("ok".into());
                    }
                    Err(e) => outs.push(format!("err {}", err_class(&e))),
                }
            }
            ["image"] => outs.push(file_image(&path, w.stats().block_size)),
            ["read", k] => match w.read_all(k.parse().unwrap()) {
                Ok(rs) => {
                    let items: Vec<String> = rs.iter().map(show_rec).collect();
                    outs.push(format!("[{}]", items.join(",")));
                }
                Err(e) => outs.push(format!("err {}", err_class(&e))),
            },
            _ => unreachable!(),
        }
        if let Some(w) = wal.as_ref() {
            diag.push(stats_diag(w));
        } else {
            diag.push("dead".into());
        }
    }
    drop(wal);
    format!("{} ## {}", outs.join(" ; "), diag.join(" ; "))
}

fn u64_at(b: &[u8], off: usize) -> u64 {
    u64::from_le_bytes(b[off..off + 8].try_into().unwrap())
}

fn opt_at(b: &[u8], off: usize) -> String {
    if u64_at(b, off) == 0 { "-".into() } else { u64_at(b, off + 8).to_string() }
}

/// An independent look at the file, knowing only the layout: per block its number, used bytes, first/last LSN
/// (`BlockHeader`: u64, Option<u64>, Option<u64>, u64) and a digest of the used part of the data area with the value
/// bytes of `None` options zeroed; block zero also shows `total_blocks` (`WalHeader` behind the 64-byte block header).
fn file_image(path: &std::path::Path, bs: usize) -> String {
    let Ok(data) = std::fs::read(path) else { return "err io".into() };
    if data.len() < bs {
        return "{}".into();
    }
    let c = fw::constants(bs);
    let mut items = Vec::new();
    for (i, blk) in data.chunks(bs).enumerate() {
        if blk.len() < bs {
            items.push("partial".to_string());
            break;
        }
        let hdr = if i == 0 { c.zero_header_size } else { c.block_header_size };
        let used = u64_at(blk, 40) as usize;
        if used > bs - hdr {
            items.push(format!("{}:{}:bad", u64_at(blk, 0), used));
            continue;
        }
        let mut area = blk[hdr..hdr + used].to_vec();
        let mut off = 0usize;
        let mut bad = false;
        while off < used {
            if off + c.record_header_size > used {
                bad = true;
                break;
            }
            let total = u32::from_le_bytes(area[off + 64..off + 68].try_into().unwrap()) as usize;
            if total < c.record_header_size || off + total > used {
                bad = true;
                break;
            }
            for slot in [16usize, 32, 48] {
                if u64_at(&area, off + slot) == 0 {
                    for b in &mut area[off + slot + 8..off + slot + 16] {
                        *b = 0;
                    }
                }
            }
            off += total;
        }
        let mut item = format!(
            "{}:{}:{}:{}:{}",
            u64_at(blk, 0),
            used,
            opt_at(blk, 8),
            opt_at(blk, 24),
            if bad { "bad".to_string() } else { format!("{:08x}", fnv(&[&area])) }
        );
        if i == 0 {
            // WalHeader starts at 64: two Option<u64> (32 bytes), last_checkpoint_offset (8), total_blocks
            item.push_str(&format!(":tb={}", u64_at(blk, 64 + 40)));
        }
        items.push(item);
    }
    format!("{{{}}}", items.join(","))
}

/// value bytes of a `None` option are not initialised by the code: zero them before comparing
fn mask_record_image(img: &mut [u8], r: &fw::Rec) {
    let opts = [(16usize, r.prev_lsn), (32, r.object_id), (48, r.row_id)];
    for (off, o) in opts {
        if o.is_none() && img.len() >= off + 16 {
            for b in &mut img[off + 8..off + 16] {
                *b = 0;
            }
        }
    }
}

impl Engine for WalEngine {
    fn timeout_ms(&self) -> u64 {
        60_000
    }

    fn exec(&mut self, line: &str) -> String {
        let line = line.trim();
        if let Some(rest) = line.strip_prefix("seq |") {
            let ops: Vec<&str> = rest.split(';').map(|s| s.trim()).filter(|s| !s.is_empty()).collect();
            return run_seq(&ops);
        }
        if line == "seq" {
            return run_seq(&[]);
        }
        let ws: Vec<&str> = line.split_whitespace().collect();
        match ws.as_slice() {
            ["rec", lsn, tid, kind, prev, oid, row, undo, redo] => {
                let r = (|| {
                    Some(fw::Rec {
                        lsn: lsn.parse().ok()?,
                        tid: tid.parse().ok()?,
                        kind: kind.parse().ok()?,
                        prev_lsn: parse_opt(prev)?,
                        object_id: parse_opt(oid)?,
                        row_id: parse_opt(row)?,
                        undo: unhex(undo)?,
                        redo: unhex(redo)?,
                        total_size: 0,
                    })
                })();
                let Some(r) = r else { return "bad-op".into() };
                if r.undo.len() > 65535 || r.redo.len() > 65535 {
                    return "bad-op".into();
                }
                let Some(mut img) = fw::encode_record(&r) else { return "bad-op".into() };
                mask_record_image(&mut img, &r);
                let mut with_rest = img.clone();
                with_rest.extend_from_slice(&[0xEE; 24]);
                let rt = match fw::decode_record(&with_rest) {
                    Some(d)
                        if d.lsn == r.lsn
                            && d.tid == r.tid
                            && d.kind == r.kind
                            && d.prev_lsn == r.prev_lsn
                            && d.object_id == r.object_id
                            && d.row_id == r.row_id
                            && d.undo == r.undo
                            && d.redo == r.redo
                            && d.total_size == img.len() =>
                    {
                        "rt=ok"
                    }
                    _ => "rt=DIFF",
                };
                format!("{} {}", hex(&img), rt)
            }
            _ => "bad-op".into(),
        }
    }

    fn gen_cases(&self, rng: &mut Rng, tier: Tier) -> Vec<Case> {
        generator::gen_cases(rng, tier)
    }
}

mod generator {
    use super::*;

    /// Space accounting of the log, used only to steer sizes towards block boundaries (never to judge).
    pub struct Sim {
        z: usize,
        b: usize,
        m: usize,
        zero_used: usize,
        spilled: bool,
        cur: Option<usize>,
        pub crossings: usize,
        pub forces: usize,
        pub forces_after_cross: usize,
        pub tags: std::collections::BTreeSet<&'static str>,
    }

    impl Sim {
        pub fn new(c: &fw::Constants) -> Sim {
            Sim {
                z: c.fresh_zero_available,
                b: c.fresh_block_available,
                m: c.max_record_size,
                zero_used: 0,
                spilled: false,
                cur: None,
                crossings: 0,
                forces: 0,
                forces_after_cross: 0,
                tags: Default::default(),
            }
        }
        /// free space of the block the next record would go to
        pub fn space(&self) -> usize {
            match self.cur {
                Some(u) => self.b - u,
                None if !self.spilled => self.z - self.zero_used,
                None => self.b,
            }
        }
        pub fn push(&mut self, size: usize) {
            if size > self.m {
                self.tags.insert("toolarge");
                return;
            }
            if self.cur.is_none() {
                if !self.spilled && self.z - self.zero_used >= size {
                    if self.z - self.zero_used == size {
                        self.tags.insert("fills-zero-exactly");
                    }
                    self.zero_used += size;
                    return;
                }
                self.spilled = true;
                self.crossings += 1;
                self.tags.insert("spill");
                self.cur = Some(0);
            }
            let u = self.cur.unwrap();
            let mut u = u;
            if self.b - u < size {
                self.crossings += 1;
                self.tags.insert("rotate");
                u = 0;
            }
            if self.b < size {
                self.tags.insert("full");
                self.cur = Some(0);
            } else {
                if self.b - u == size {
                    self.tags.insert("fills-block-exactly");
                }
                self.cur = Some(u + size);
            }
        }
        pub fn force(&mut self) {
            self.forces += 1;
            if self.crossings > 0 {
                self.forces_after_cross += 1;
            }
        }
        pub fn reopen(&mut self) {
            if self.spilled {
                self.tags.insert("reopen-after-spill");
            }
            self.force();
            self.cur = None;
        }
        pub fn crash(&mut self) {
            self.tags.insert("crash");
            self.cur = None;
        }
        pub fn truncate(&mut self) {
            self.tags.insert("truncate");
            self.zero_used = 0;
            self.spilled = false;
            self.cur = None;
        }
        /// non-trivial: at least one block boundary crossed and at least two forces, one of them after the crossing
        pub fn nontrivial(&self) -> bool {
            self.crossings >= 1 && self.forces >= 2 && self.forces_after_cross >= 1
        }
    }

    const HDR: usize = 80;

    fn total_of(payload: usize) -> usize {
        HDR + payload.next_multiple_of(8)
    }

    /// `push` op with the given payload length, split at random between undo and redo
    fn push_op(rng: &mut Rng, sim: &mut Sim, tid: &mut u64, payload: usize) -> String {
        let kind = if payload == 0 { *rng.pick(&KINDS) } else { *rng.pick(&[6u8, 7, 8, 9, 10, 11]) };
        let u = match rng.below(4) {
            0 => 0,
            1 => payload,
            _ => rng.below(payload as u64 + 1) as usize,
        };
        let r = payload - u;
        sim.push(total_of(payload));
        *tid += 1;
        format!("push {} {} {} {}", *tid, kind, u, r)
    }

    /// payload length whose record leaves `d` bytes (d multiple of 8, may be negative) in the target block, with the
    /// payload's residue mod 8 chosen by `j`
    fn payload_for_gap(sim: &Sim, d: i64, j: usize) -> Option<usize> {
        let total = sim.space() as i64 - d;
        if total < HDR as i64 {
            return None;
        }
        let padded = total as usize - HDR;
        if padded == 0 {
            return Some(0);
        }
        Some(padded - (j % 8).min(padded - 1).min(7))
    }

    fn random_payload(rng: &mut Rng, sim: &mut Sim, c: &fw::Constants) -> usize {
        let max_payload = c.max_record_size - HDR;
        match rng.below(100) {
            0..=19 => 0,
            20..=44 => 1 + rng.below(64) as usize,
            45..=59 => 1000 + rng.below(7000) as usize,
            60..=79 => {
                let d = rng.range(-2, 11) * 8;
                sim.tags.insert("boundary-targeted");
                payload_for_gap(sim, d, rng.below(8) as usize).unwrap_or(0)
            }
            80..=91 => 20000 + rng.below((max_payload - 20000) as u64 + 1) as usize,
            _ => {
                sim.tags.insert("limit-size");
                // around max_record_size and around what a fresh block can really take
                let base = if rng.chance(1, 2) { c.max_record_size } else { c.fresh_block_available };
                let total = (base as i64 + rng.range(-2, 2) * 8) as usize;
                total - HDR - rng.below(8) as usize
            }
        }
    }

    fn tags_of(sim: &Sim, base: &[&str]) -> Vec<String> {
        let mut t: Vec<String> = base.iter().map(|s| s.to_string()).collect();
        t.extend(sim.tags.iter().map(|s| s.to_string()));
        if sim.nontrivial() {
            t.push("nt".into());
        }
        t.push(format!("crossings-{}", sim.crossings.min(4)));
        t
    }

    /// all sequences of length ≤ `len` over the alphabet
    ///   a push small (empty payload)   b push exactly filling the target block   c push large (30 000 bytes)
    ///   f force   r reopen   t truncate   x crash
    /// each once with a single final read and once with a read after every op
    fn exhaustive(cases: &mut Vec<Case>, c: &fw::Constants, len: usize) {
        let alphabet = ['a', 'b', 'c', 'f', 'r', 't', 'x'];
        let mut seqs: Vec<Vec<char>> = vec![vec![]];
        let mut frontier: Vec<Vec<char>> = vec![vec![]];
        for _ in 0..len {
            let mut next = Vec::new();
            for s in &frontier {
                for a in alphabet {
                    let mut t = s.clone();
                    t.push(a);
                    next.push(t);
                }
            }
            seqs.extend(next.iter().cloned());
            frontier = next;
        }
        let mut n = 0usize;
        for s in seqs {
            for every in [false, true] {
                let mut sim = Sim::new(c);
                let mut ops: Vec<String> = Vec::new();
                let mut tid = 0u64;
                for (i, a) in s.iter().enumerate() {
                    n += 1;
                    match a {
                        'a' => {
                            tid += 1;
                            sim.push(HDR);
                            ops.push(format!("push {} {} 0 0", tid, KINDS[(n + i) % 4]));
                        }
                        'b' => {
                            tid += 1;
                            let p = payload_for_gap(&sim, 0, n + i).unwrap_or(0);
                            sim.push(total_of(p));
                            let u = (p / 3).min(65535);
                            ops.push(format!("push {} 6 {} {}", tid, u, p - u));
                        }
                        'c' => {
                            tid += 1;
                            sim.push(total_of(30000));
                            ops.push(format!("push {} 8 0 30000", tid));
                        }
                        'f' => {
                            sim.force();
                            ops.push("force".into());
                        }
                        'r' => {
                            sim.reopen();
                            ops.push("reopen".into());
                        }
                        't' => {
                            sim.truncate();
                            ops.push("truncate".into());
                        }
                        _ => {
                            sim.crash();
                            ops.push("crash".into());
                        }
                    }
                    if every {
                        ops.push(format!("read {}", 1 + (n + i) % 3));
                    }
                }
                if !every {
                    ops.push(format!("read {}", 1 + n % 3));
                } else {
                    ops.push("image".into());
                }
                let line = if ops.is_empty() { "seq".to_string() } else { format!("seq | {}", ops.join(" ; ")) };
                cases.push(Case { line, tags: tags_of(&sim, &["exhaustive"]) });
            }
        }
    }

    fn random_seq(rng: &mut Rng, c: &fw::Constants, max_ops: usize) -> Case {
        let mut sim = Sim::new(c);
        let mut ops: Vec<String> = Vec::new();
        let mut tid = rng.below(1000);
        let n_ops = 5 + rng.below(max_ops as u64 - 4) as usize;
        // style: 0 = free mix, 1 = production pattern (every commit forces), 2 = fill quickly then mix
        let style = rng.below(3);
        let crashy = rng.chance(1, 4);
        let mut base = vec!["random", ["style-mix", "style-commit", "style-fill"][style as usize]];
        if style == 2 {
            for _ in 0..rng.below(3) {
                let p = 20000 + rng.below(20000) as usize;
                ops.push(push_op(rng, &mut sim, &mut tid, p));
            }
        }
        while ops.len() < n_ops {
            if style == 1 {
                // begin, a few changes, commit, force, end  (Session / log_end)
                ops.push(push_op(rng, &mut sim, &mut tid, 0));
                for _ in 0..1 + rng.below(3) {
                    let p = random_payload(rng, &mut sim, c);
                    ops.push(push_op(rng, &mut sim, &mut tid, p));
                }
                ops.push(push_op(rng, &mut sim, &mut tid, 0));
                sim.force();
                ops.push("force".into());
                ops.push(push_op(rng, &mut sim, &mut tid, 0));
                if rng.chance(1, 3) {
                    ops.push(format!("read {}", 1 + rng.below(6)));
                }
                if rng.chance(1, 8) {
                    sim.reopen();
                    ops.push("reopen".into());
                }
                if crashy && rng.chance(1, 8) {
                    sim.crash();
                    ops.push("crash".into());
                }
                if rng.chance(1, 25) {
                    sim.truncate();
                    ops.push("truncate".into());
                }
                continue;
            }
            match rng.below(100) {
                0..=54 => {
                    let p = random_payload(rng, &mut sim, c);
                    ops.push(push_op(rng, &mut sim, &mut tid, p));
                }
                55..=69 => {
                    sim.force();
                    ops.push("force".into());
                }
                70..=72 => ops.push("image".into()),
                73..=84 => {
                    let k = if rng.chance(1, 40) { 0 } else { 1 + rng.below(6) };
                    if k == 0 {
                        base.push("read-ahead-0");
                    }
                    ops.push(format!("read {}", k));
                }
                85..=91 => {
                    sim.reopen();
                    ops.push("reopen".into());
                }
                92..=95 => {
                    sim.truncate();
                    ops.push("truncate".into());
                }
                _ => {
                    if crashy {
                        sim.crash();
                        ops.push("crash".into());
                    } else {
                        sim.force();
                        ops.push("force".into());
                    }
                }
            }
        }
        // the log is always read back at the end: as is, after a force, and after a reopen
        ops.push(format!("read {}", 1 + rng.below(6)));
        sim.force();
        ops.push("force".into());
        ops.push(format!("read {}", 1 + rng.below(6)));
        sim.reopen();
        ops.push("reopen".into());
        ops.push(format!("read {}", 1 + rng.below(6)));
        ops.push("image".into());
        Case { line: format!("seq | {}", ops.join(" ; ")), tags: tags_of(&sim, &base) }
    }

    fn rec_case(rng: &mut Rng, ulen: usize, rlen: usize) -> Case {
        let o = |rng: &mut Rng| match rng.below(4) {
            0 => "-".to_string(),
            1 => rng.below(3).to_string(),
            2 => u64::MAX.to_string(),
            _ => rng.next_u64().to_string(),
        };
        let lsn = if rng.chance(1, 8) { u64::MAX } else { rng.next_u64() >> rng.below(64) };
        let tid = rng.next_u64() >> rng.below(64);
        let kind = *rng.pick(&KINDS);
        let (p, q, w) = (o(rng), o(rng), o(rng));
        let u = rng.bytes(ulen);
        let r = rng.bytes(rlen);
        Case {
            line: format!(
                "rec {} {} {} {} {} {} {} {}",
                lsn,
                tid,
                kind,
                p,
                q,
                w,
                crate::util::hex_or_dash(&u),
                crate::util::hex_or_dash(&r)
            ),
            tags: vec!["rec".into(), format!("rec-residue-{}", (ulen + rlen) % 8), "nt".into()],
        }
    }

    pub fn gen_cases(rng: &mut Rng, tier: Tier) -> Vec<Case> {
        // the constants only steer the generator towards block boundaries
        let bs = super::generated_block_size().unwrap_or(40960);
        let c = fw::constants(bs);
        let mut cases = Vec::new();
        let quick = tier == Tier::Quick;
        exhaustive(&mut cases, &c, if quick { 4 } else { 5 });
        for _ in 0..if quick { 600 } else { 6000 } {
            cases.push(random_seq(rng, &c, if quick { 60 } else { 300 }));
        }
        // record images: every payload residue, empty payloads, a few long ones
        for u in 0..9 {
            for r in 0..9 {
                cases.push(rec_case(rng, u, r));
            }
        }
        for _ in 0..if quick { 200 } else { 2000 } {
            let u = rng.below(70) as usize;
            let r = rng.below(70) as usize;
            cases.push(rec_case(rng, u, r));
        }
        for (u, r) in [(65535, 0), (0, 65535), (40816, 0), (20000, 20816), (65535, 65535)] {
            cases.push(rec_case(rng, u, r));
        }
        cases
    }
}

/// block size the log uses on the scratch file system
fn generated_block_size() -> Option<usize> {
    let dir = scratch_dir();
    std::fs::create_dir_all(&dir).ok()?;
    let _guard = DirGuard(dir.clone());
    let w = fw::Wal::create(dir.join("wal.log")).ok()?;
    Some(w.stats().block_size)
}

/// Content of `lean/AxVerif/Generated/Wal.lean`: the log's constants, evaluated from the code (a log is created
/// on the scratch file system to learn the block size actually used there).
pub fn generated() -> Option<(&'static str, String)> {
    let dir = scratch_dir();
    std::fs::create_dir_all(&dir).ok()?;
    let _guard = DirGuard(dir.clone());
    let w = fw::Wal::create(dir.join("wal.log")).ok()?;
    let bs = w.stats().block_size;
    let max_rec = w.max_record_size();
    drop(w);
    let c = fw::constants(bs);
    assert_eq!(c.max_record_size, max_rec);
    let padded: Vec<String> = c.padded_sizes.iter().map(|n| n.to_string()).collect();
    Some((
        "Wal.lean",
        format!(
            "/- REGENERATED on every run by `axh extract` from values evaluated out of /repo. Do not edit. -/\n\
             import AxVerif.Model.Wal\n\
             namespace AxVerif.Generated\n\n\
             def walParams : AxVerif.Wal.Params :=\n  \
             {{ blockSize := {}, blockHdr := {}, zeroHdr := {}, recHdr := {}, align := {},\n    \
             maxRecord := {}, freshZeroAvail := {}, freshBlockAvail := {}, freshTotalBlocks := {} }}\n\n\
             /-- `WAL_BLOCK_SIZE` before rounding up to the file-system block size -/\n\
             def walBlockSizeConst : Nat := {}\n\n\
             /-- `OwnedRecord::compute_padded_size(n)` for n = 0..15 -/\n\
             def walPaddedSizes : List Nat := [{}]\n\n\
             end AxVerif.Generated\n",
            bs,
            c.block_header_size,
            c.zero_header_size,
            c.record_header_size,
            c.record_alignment,
            c.max_record_size,
            c.fresh_zero_available,
            c.fresh_block_available,
            c.fresh_total_blocks,
            c.wal_block_size,
            padded.join(", ")
        ),
    ))
}
