//! Engine `wire` (C20): the real `tcp` encoders/decoders and frame reader against the Lean model.
use super::{Case, Engine, Tier};
use crate::rng::Rng;
use crate::util::{hex, hex_or_dash, unhex};
use axmosdb::tcp::{Request, Response, TcpError, read_message, write_message};

pub struct WireEngine;

fn err_class(e: &TcpError) -> &'static str {
    match e {
        TcpError::VersionMismatch { .. } => "version",
        TcpError::UnknownCommand(_) => "unknowncmd",
        TcpError::UnknownStatus(_) => "unknownstatus",
        TcpError::InvalidMessage(_) => "invalid",
        TcpError::Io(_) => "io",
        TcpError::MessageTooLarge(_) => "toolarge",
        TcpError::ConnectionClosed => "closed",
    }
}

fn show_req(r: &Request) -> String {
    match r {
        Request::Create(p) => format!("create {}", hex_or_dash(p.as_bytes())),
        Request::Open(p) => format!("open {}", hex_or_dash(p.as_bytes())),
        Request::Sql(p) => format!("sql {}", hex_or_dash(p.as_bytes())),
        Request::Explain(p) => format!("explain {}", hex_or_dash(p.as_bytes())),
        Request::Analyze { sample_rate, max_sample_rows } => {
            format!("analyze {} {}", sample_rate.to_bits(), *max_sample_rows as u64)
        }
        Request::Begin => "begin".into(),
        Request::Rollback => "rollback".into(),
        Request::Commit => "commit".into(),
        Request::Vacuum => "vacuum".into(),
        Request::Close => "close".into(),
        Request::Ping => "ping".into(),
        Request::Shutdown => "shutdown".into(),
    }
}

fn show_resp(r: &Response) -> String {
    match r {
        Response::Ok(m) => format!("ok {}", hex_or_dash(m.as_bytes())),
        Response::Error(m) => format!("error {}", hex_or_dash(m.as_bytes())),
        Response::Ddl(m) => format!("ddl {}", hex_or_dash(m.as_bytes())),
        Response::Explain(m) => format!("explain {}", hex_or_dash(m.as_bytes())),
        Response::Rows { columns, data } => {
            let shape: Vec<String> = data.iter().map(|r| r.len().to_string()).collect();
            let mut cells: Vec<String> = columns.iter().map(|c| hex_or_dash(c.as_bytes())).collect();
            for row in data {
                for v in row {
                    cells.push(hex_or_dash(v.as_bytes()));
                }
            }
            format!("rows {} {} [{}] {}", columns.len(), data.len(), shape.join(","), cells.join(" "))
                .trim()
                .to_string()
        }
        Response::SessionStarted => "started".into(),
        Response::SessionEnd => "end".into(),
        Response::RowsAffected(n) => format!("affected {}", n),
        Response::VacuumComplete { tables_vacuumed, bytes_freed, transactions_cleaned } => {
            format!("vacuumed {} {} {}", tables_vacuumed, bytes_freed, transactions_cleaned)
        }
        Response::Pong => "pong".into(),
        Response::Goodbye => "goodbye".into(),
        Response::ShuttingDown => "shuttingdown".into(),
    }
}

fn st(h: &str) -> Option<String> {
    String::from_utf8(unhex(h)?).ok()
}

fn parse_req(ws: &[&str]) -> Option<Request> {
    Some(match ws {
        ["create", h] => Request::Create(st(h)?),
        ["open", h] => Request::Open(st(h)?),
        ["sql", h] => Request::Sql(st(h)?),
        ["explain", h] => Request::Explain(st(h)?),
        ["analyze", r, m] => Request::Analyze {
            sample_rate: f64::from_bits(r.parse().ok()?),
            max_sample_rows: m.parse::<u64>().ok()? as usize,
        },
        ["begin"] => Request::Begin,
        ["rollback"] => Request::Rollback,
        ["commit"] => Request::Commit,
        ["vacuum"] => Request::Vacuum,
        ["close"] => Request::Close,
        ["ping"] => Request::Ping,
        ["shutdown"] => Request::Shutdown,
        _ => return None,
    })
}

fn parse_resp(ws: &[&str]) -> Option<Response> {
    Some(match ws {
        ["ok", h] => Response::Ok(st(h)?),
        ["error", h] => Response::Error(st(h)?),
        ["ddl", h] => Response::Ddl(st(h)?),
        ["explain", h] => Response::Explain(st(h)?),
        ["started"] => Response::SessionStarted,
        ["end"] => Response::SessionEnd,
        ["pong"] => Response::Pong,
        ["goodbye"] => Response::Goodbye,
        ["shuttingdown"] => Response::ShuttingDown,
        ["affected", n] => Response::RowsAffected(n.parse().ok()?),
        ["vacuumed", a, b, c] => Response::VacuumComplete {
            tables_vacuumed: a.parse::<u64>().ok()? as usize,
            bytes_freed: b.parse::<u64>().ok()? as usize,
            transactions_cleaned: c.parse::<u64>().ok()? as usize,
        },
        ["rows", nc, nr, cells @ ..] => {
            let nc: usize = nc.parse().ok()?;
            let nr: usize = nr.parse().ok()?;
            if cells.len() != nc + nc * nr {
                return None;
            }
            let cs: Option<Vec<String>> = cells.iter().map(|h| st(h)).collect();
            let cs = cs?;
            let columns = cs[..nc].to_vec();
            let data = (0..nr).map(|i| cs[nc + i * nc..nc + (i + 1) * nc].to_vec()).collect();
            Response::Rows { columns, data }
        }
        _ => return None,
    })
}

impl Engine for WireEngine {
    fn rlimit_as_mb(&self) -> Option<u64> {
        Some(4096)
    }

    fn exec(&mut self, line: &str) -> String {
        let ws: Vec<&str> = line.split_whitespace().collect();
        match ws.as_slice() {
            ["req", h] => match unhex(h) {
                None => "bad-op".into(),
                Some(d) => match Request::from_bytes(&d) {
                    Ok(r) => format!("ok {}", show_req(&r)),
                    Err(e) => format!("err {}", err_class(&e)),
                },
            },
            ["resp", h] => match unhex(h) {
                None => "bad-op".into(),
                Some(d) => match Response::from_bytes(&d) {
                    Ok(r) => format!("ok {}", show_resp(&r)),
                    Err(e) => format!("err {}", err_class(&e)),
                },
            },
            ["encreq", rest @ ..] => match parse_req(rest) {
                None => "bad-op".into(),
                Some(r) => {
                    let e = r.to_bytes();
                    let rt = match Request::from_bytes(&e) {
                        Ok(r2) if r2 == r || show_req(&r2) == show_req(&r) => "rt=ok",
                        _ => "rt=DIFF",
                    };
                    format!("{} {}", hex(&e), rt)
                }
            },
            ["encresp", rest @ ..] => match parse_resp(rest) {
                None => "bad-op".into(),
                Some(r) => {
                    let e = r.to_bytes();
                    let rt = match Response::from_bytes(&e) {
                        Ok(r2) if show_resp(&r2) == show_resp(&r) => "rt=ok",
                        _ => "rt=DIFF",
                    };
                    format!("{} {}", hex(&e), rt)
                }
            },
            ["frame", h] => match unhex(h) {
                None => "bad-op".into(),
                Some(d) => {
                    let mut cur = std::io::Cursor::new(&d[..]);
                    match read_message(&mut cur) {
                        Ok(m) => format!("ok {} rest={}", hex_or_dash(&m), d.len() - cur.position() as usize),
                        Err(e) => format!("err {}", err_class(&e)),
                    }
                }
            },
            ["framec", k, h] => match (k.parse::<usize>(), unhex(h)) {
                (Ok(k), Some(d)) if k >= 1 => {
                    let mut r = ChunkReader { data: &d, pos: 0, chunk: k };
                    match read_message(&mut r) {
                        Ok(m) => format!("ok {} rest={}", hex_or_dash(&m), d.len() - r.pos),
                        Err(e) => format!("err {}", err_class(&e)),
                    }
                }
                _ => "bad-op".into(),
            },
            ["frames", k, h] => match (k.parse::<usize>(), unhex(h)) {
                (Ok(k), Some(d)) if k >= 1 => {
                    // the way server and client read: a BufReader over the transport, message after message
                    let inner = ChunkReader { data: &d, pos: 0, chunk: k.max(1) };
                    let mut r = std::io::BufReader::with_capacity(k, inner);
                    let mut out: Vec<String> = Vec::new();
                    loop {
                        match read_message(&mut r) {
                            Ok(m) => out.push(format!("ok {}", hex_or_dash(&m))),
                            Err(e) => {
                                out.push(format!("err {}", err_class(&e)));
                                break;
                            }
                        }
                        if out.len() > d.len() + 2 {
                            out.push("PROPFAIL endless".into());
                            break;
                        }
                    }
                    out.join(" ")
                }
                _ => "bad-op".into(),
            },
            ["wframe", h] => match unhex(h) {
                None => "bad-op".into(),
                Some(d) => {
                    let mut out = Vec::new();
                    match write_message(&mut out, &d) {
                        Ok(()) => format!("ok {}", hex(&out)),
                        Err(e) => format!("err {}", err_class(&e)),
                    }
                }
            },
            ["wframezeros", n] => match n.parse::<usize>() {
                Err(_) => "bad-op".into(),
                Ok(n) => {
                    let d = vec![0u8; n];
                    let mut out = Vec::new();
                    match write_message(&mut out, &d) {
                        Ok(()) => format!("ok len={} prefix={}", out.len(), hex(&out[..4])),
                        Err(e) => format!("err {}", err_class(&e)),
                    }
                }
            },
            // several messages written to ONE writer (as a client does over its connection), some of them refused;
            // then the stream is read back frame by frame: a refused message must leave nothing behind
            ["wseq", items] => {
                let mut out: Vec<u8> = Vec::new();
                let mut verdicts: Vec<String> = Vec::new();
                let mut accepted: Vec<String> = Vec::new();
                for it in items.split(',') {
                    let d = if let Some(n) = it.strip_prefix('z') {
                        match n.parse::<usize>() {
                            Ok(n) if n <= 17 * 1024 * 1024 => vec![0u8; n],
                            _ => return "bad-op".into(),
                        }
                    } else if let Some(h) = it.strip_prefix('h') {
                        match unhex(h) {
                            Some(d) => d,
                            None => return "bad-op".into(),
                        }
                    } else {
                        return "bad-op".into();
                    };
                    verdicts.push(match write_message(&mut out, &d) {
                        Ok(()) => {
                            accepted.push(format!("ok {}", hex_or_dash(&d)));
                            "ok".to_string()
                        }
                        Err(e) => format!("err:{}", err_class(&e)),
                    });
                }
                let mut cur = std::io::Cursor::new(&out[..]);
                let mut frames: Vec<String> = Vec::new();
                loop {
                    match read_message(&mut cur) {
                        Ok(m) => frames.push(format!("ok {}", hex_or_dash(&m))),
                        Err(e) => {
                            frames.push(format!("err {}", err_class(&e)));
                            break;
                        }
                    }
                    if frames.len() > 64 {
                        frames.push("PROPFAIL endless".into());
                        break;
                    }
                }
                // the property itself: exactly the accepted messages are received, as sent and in order
                let received_as_sent = frames.len() == accepted.len() + 1 && frames[..accepted.len()] == accepted[..];
                format!(
                    "w={} | {}{}",
                    verdicts.join(","),
                    frames.join(" "),
                    if received_as_sent { "" } else { " PROPFAIL not-received-as-sent" }
                )
            }
            _ => "bad-op".into(),
        }
    }

    fn gen_cases(&self, rng: &mut Rng, tier: Tier) -> Vec<Case> {
        let scale = if tier == Tier::Quick { 1 } else { 10 };
        let mut cases = Vec::new();
        // (1) well-formed values of every variant: encode must equal the model's bytes, and decode∘encode = id
        for _ in 0..1500 * scale {
            let r = gen_req(rng);
            cases.push(Case::new(format!("encreq {}", show_req(&r)), &["encreq", "nt"]));
        }
        for _ in 0..2500 * scale {
            let (r, tag) = gen_resp(rng);
            cases.push(Case::new(format!("encresp {}", show_resp_rect(&r)), &["encresp", tag, "nt"]));
        }
        // (2) byte strings: random, structured-random, mutated encodings
        for _ in 0..6000 * scale {
            let (d, tag) = gen_garbage(rng, true);
            cases.push(Case::new(format!("req {}", hex_or_dash(&d)), &["req", tag, "nt"]));
        }
        for _ in 0..9000 * scale {
            let (d, tag) = gen_garbage(rng, false);
            cases.push(Case::new(format!("resp {}", hex_or_dash(&d)), &["resp", tag, "nt"]));
        }
        // (3) framing
        for _ in 0..1500 * scale {
            let mut d = rng.rbytes(0, 40);
            let tag = match rng.below(4) {
                0 => "frame-random",
                1 => {
                    let body = rng.rbytes(0, 30);
                    d = (body.len() as u32).to_le_bytes().to_vec();
                    d.extend(body);
                    d.extend(rng.rbytes(0, 5));
                    "frame-valid"
                }
                2 => {
                    let n = rng.below(60) as u32;
                    d = n.to_le_bytes().to_vec();
                    d.extend(rng.rbytes(0, 40));
                    "frame-lenprefix"
                }
                _ => {
                    let n = 16 * 1024 * 1024 + rng.range(-2, 2) as i64;
                    d = (n as u32).to_le_bytes().to_vec();
                    d.extend(rng.rbytes(0, 8));
                    "frame-cap-boundary"
                }
            };
            cases.push(Case::new(format!("frame {}", hex_or_dash(&d)), &["frame", tag, "nt"]));
        }
        // (3b) the same through transports with short reads, and several frames through a buffered reader
        for _ in 0..1200 * scale {
            let nframes = 1 + rng.below(4) as usize;
            let mut d = Vec::new();
            for _ in 0..nframes {
                let body = rng.rbytes(0, 24);
                d.extend((body.len() as u32).to_le_bytes());
                d.extend(body);
            }
            match rng.below(4) {
                0 => {
                    let cut = rng.below(d.len() as u64 + 1) as usize;
                    d.truncate(cut);
                }
                1 => d.extend(rng.rbytes(0, 5)),
                _ => {}
            }
            let k = 1 + rng.below(9);
            if rng.chance(1, 3) {
                cases.push(Case::new(format!("framec {} {}", k, hex_or_dash(&d)), &["framec", "short-reads", "nt"]));
            } else {
                cases.push(Case::new(format!("frames {} {}", k, hex_or_dash(&d)), &["frames", "short-reads", "nt"]));
            }
        }
        for _ in 0..300 * scale {
            let d = rng.rbytes(0, 64);
            cases.push(Case::new(format!("wframe {}", hex_or_dash(&d)), &["wframe"]));
        }
        // (3c) one writer, several messages, a refused (oversized) one among them
        for i in 0..8 {
            let mut items: Vec<String> = Vec::new();
            let n = 2 + rng.below(4) as usize;
            let refused_at = rng.below(n as u64) as usize;
            for j in 0..n {
                if j == refused_at {
                    items.push(format!("z{}", 16 * 1024 * 1024 + 1 + (i % 3)));
                } else {
                    items.push(format!("h{}", hex_or_dash(&rng.rbytes(1, 24))));
                }
            }
            cases.push(Case::new(format!("wseq {}", items.join(",")), &["wseq", "refused-then-next", "nt"]));
        }
        for n in [16 * 1024 * 1024 - 1, 16 * 1024 * 1024, 16 * 1024 * 1024 + 1] {
            cases.push(Case::new(format!("wframezeros {}", n), &["wframe-cap-boundary", "nt"]));
        }
        cases
    }
}

/// A transport that hands out at most `chunk` bytes per `read` call (short reads, as a socket does).
struct ChunkReader<'a> {
    data: &'a [u8],
    pos: usize,
    chunk: usize,
}

impl std::io::Read for ChunkReader<'_> {
    fn read(&mut self, buf: &mut [u8]) -> std::io::Result<usize> {
        let n = buf.len().min(self.chunk).min(self.data.len() - self.pos);
        buf[..n].copy_from_slice(&self.data[self.pos..self.pos + n]);
        self.pos += n;
        Ok(n)
    }
}

/// `show_resp` for rectangular rows in the input syntax (`rows nc nr cells…`, no shape field).
fn show_resp_rect(r: &Response) -> String {
    match r {
        Response::Rows { columns, data } => {
            let mut cells: Vec<String> = columns.iter().map(|c| hex_or_dash(c.as_bytes())).collect();
            for row in data {
                for v in row {
                    cells.push(hex_or_dash(v.as_bytes()));
                }
            }
            format!("rows {} {} {}", columns.len(), data.len(), cells.join(" ")).trim().to_string()
        }
        other => show_resp(other),
    }
}

fn gen_string(rng: &mut Rng) -> String {
    match rng.below(8) {
        0 => String::new(),
        1 => {
            // non-ASCII of every UTF-8 width
            let pool = ['é', 'ß', '€', '漢', '😀', '\u{7ff}', '\u{800}', '\u{ffff}', '\u{10000}', '\u{10ffff}', 'a', ' '];
            (0..rng.below(12)).map(|_| *rng.pick(&pool)).collect()
        }
        2 => {
            // arbitrary scalar values
            (0..rng.below(10))
                .filter_map(|_| char::from_u32(rng.below(0x110000) as u32))
                .collect()
        }
        3 => "x".repeat(rng.below(700) as usize),
        4 => "SELECT * FROM t WHERE a = 1".to_string(),
        _ => (0..rng.below(16)).map(|_| (b' ' + rng.below(95) as u8) as char).collect(),
    }
}

fn gen_req(rng: &mut Rng) -> Request {
    match rng.below(12) {
        0 => Request::Create(gen_string(rng)),
        1 => Request::Open(gen_string(rng)),
        2 => Request::Sql(gen_string(rng)),
        3 => Request::Explain(gen_string(rng)),
        4 => {
            let bits = match rng.below(5) {
                0 => 0u64,
                1 => f64::NAN.to_bits(),
                2 => (-0.0f64).to_bits(),
                3 => 0.25f64.to_bits(),
                _ => rng.next_u64(),
            };
            let rows = match rng.below(4) {
                0 => 0,
                1 => u64::MAX,
                2 => rng.below(100000),
                _ => rng.next_u64(),
            };
            Request::Analyze { sample_rate: f64::from_bits(bits), max_sample_rows: rows as usize }
        }
        5 => Request::Begin,
        6 => Request::Rollback,
        7 => Request::Commit,
        8 => Request::Vacuum,
        9 => Request::Close,
        10 => Request::Ping,
        _ => Request::Shutdown,
    }
}

fn gen_u64(rng: &mut Rng) -> u64 {
    match rng.below(5) {
        0 => 0,
        1 => u64::MAX,
        2 => rng.below(1000),
        3 => 1u64 << rng.below(64),
        _ => rng.next_u64(),
    }
}

fn gen_resp(rng: &mut Rng) -> (Response, &'static str) {
    match rng.below(16) {
        0 => (Response::Ok(gen_string(rng)), "resp-str"),
        1 => (Response::Error(gen_string(rng)), "resp-str"),
        2 => (Response::Ddl(gen_string(rng)), "resp-str"),
        3 => (Response::Explain(gen_string(rng)), "resp-str"),
        4 => (Response::RowsAffected(gen_u64(rng)), "resp-num"),
        5 => (
            Response::VacuumComplete {
                tables_vacuumed: gen_u64(rng) as usize,
                bytes_freed: gen_u64(rng) as usize,
                transactions_cleaned: gen_u64(rng) as usize,
            },
            "resp-num",
        ),
        6 => (
            rng.pick(&[
                Response::SessionStarted,
                Response::SessionEnd,
                Response::Pong,
                Response::Goodbye,
                Response::ShuttingDown,
            ])
            .clone(),
            "resp-unit",
        ),
        _ => {
            let (nc, nr, tag) = match rng.below(6) {
                0 => (0usize, 0usize, "rows-0x0"),
                1 => (0, rng.below(5) as usize, "rows-0cols"),
                2 => (1 + rng.below(4) as usize, 0, "rows-0rows"),
                3 => (1 + rng.below(40) as usize, 1 + rng.below(3) as usize, "rows-wide"),
                4 => (1 + rng.below(3) as usize, 1 + rng.below(120) as usize, "rows-long"),
                _ => (1 + rng.below(5) as usize, 1 + rng.below(6) as usize, "rows-small"),
            };
            let columns = (0..nc).map(|_| gen_string(rng)).collect();
            let data = (0..nr).map(|_| (0..nc).map(|_| gen_string(rng)).collect()).collect();
            (Response::Rows { columns, data }, tag)
        }
    }
}

/// Counts that stay clear of the region where the outcome depends on the address-space limit.
fn gen_count(rng: &mut Rng) -> u32 {
    match rng.below(8) {
        0 => 0,
        1 => 1,
        2 => rng.below(6) as u32,
        3 => rng.below(1 << 16) as u32,
        4 => u32::MAX,
        5 => (1u32 << 30) + rng.below(1 << 20) as u32,
        6 => 0x8000_0000,
        _ => rng.below(40) as u32,
    }
}

fn zero_column_bomb(d: &[u8]) -> bool {
    d.len() >= 10
        && d[0] == 1
        && d[1] == 2
        && d[2..6] == [0, 0, 0, 0]
        && u32::from_le_bytes([d[6], d[7], d[8], d[9]]) > 10_000
}

fn gen_garbage(rng: &mut Rng, request: bool) -> (Vec<u8>, &'static str) {
    match rng.below(8) {
        0 => {
            let d = rng.rbytes(0, 24);
            if !request && zero_column_bomb(&d) { (vec![], "bytes-random") } else { (d, "bytes-random") }
        }
        1 => {
            // right version, any opcode, random payload
            let mut d = vec![1u8, rng.next_u64() as u8];
            d.extend(rng.rbytes(0, 30));
            if !request && zero_column_bomb(&d) {
                d.truncate(8);
            }
            (d, "bytes-any-opcode")
        }
        2 => {
            // string-carrying opcode with a length prefix around the real length, invalid UTF-8 inside
            let op = if request { *rng.pick(&[1u8, 2, 3, 4]) } else { *rng.pick(&[0u8, 1, 4, 5]) };
            let body = rng.rbytes(0, 20);
            let len = (body.len() as i64 + rng.range(-2, 2)).max(0) as u32;
            let mut d = vec![1u8, op];
            d.extend(len.to_le_bytes());
            d.extend(body);
            (d, "bytes-string-lossy")
        }
        3 | 4 if !request => {
            // Rows payload with chosen counts and a mix of well-formed and truncated cells
            let nc = gen_count(rng);
            let mut d = vec![1u8, 2];
            d.extend(nc.to_le_bytes());
            let real_cols = (nc as u64).min(rng.below(5)) as usize;
            for _ in 0..real_cols {
                let b = rng.rbytes(0, 6);
                d.extend((b.len() as u32).to_le_bytes());
                d.extend(b);
            }
            if rng.chance(4, 5) {
                // keep zero-column results small: 2^32 empty rows is a valid but enormous message
                let nr = if nc == 0 { rng.below(50) as u32 } else { gen_count(rng) };
                d.extend(nr.to_le_bytes());
                let cells = ((nr as u64).saturating_mul(nc as u64)).min(rng.below(12)) as usize;
                for _ in 0..cells {
                    let b = rng.rbytes(0, 5);
                    d.extend((b.len() as u32).to_le_bytes());
                    d.extend(b);
                }
            }
            if rng.chance(1, 4) {
                let cut = rng.below(d.len() as u64 + 1) as usize;
                d.truncate(cut.max(2));
            }
            (d, "bytes-rows-counts")
        }
        _ => {
            // mutate a valid encoding: truncate, flip a byte, append
            let mut d = if request { gen_req(rng).to_bytes() } else { gen_resp(rng).0.to_bytes() };
            if d.len() > 300 {
                d.truncate(300);
            }
            match rng.below(4) {
                0 => {
                    let cut = rng.below(d.len() as u64 + 1) as usize;
                    d.truncate(cut);
                }
                1 => {
                    let i = rng.below(d.len() as u64) as usize;
                    d[i] ^= 1 << rng.below(8);
                }
                2 => d.extend(rng.rbytes(1, 6)),
                _ => {
                    let i = rng.below(d.len() as u64) as usize;
                    d[i] = rng.next_u64() as u8;
                }
            }
            // a flipped count byte can announce up to 2^32 zero-column rows, which is a valid but enormous
            // message (DESIGN §5 C20): keep those out
            if !request && zero_column_bomb(&d) {
                return (vec![1, 2, 0, 0, 0, 0, 3, 0, 0, 0], "bytes-mutated");
            }
            (d, "bytes-mutated")
        }
    }
}

/// `Generated/Wire.lean`: the protocol constants as the code defines them.
pub fn generated() -> Option<(&'static str, String)> {
    let (ver, max) = axmosdb::verif::wire_constants();
    let mut s = String::new();
    s.push_str("/- REGENERATED on every run by `axh extract` from values evaluated out of /repo. Do not edit. -/\n");
    s.push_str("import AxVerif.Model.Wire\n");
    s.push_str("namespace AxVerif.Generated\n\n");
    s.push_str(&format!(
        "def wireParams : AxVerif.Wire.Params := {{ protocolVersion := {}, maxMessageSize := {} }}\n",
        ver, max
    ));
    s.push_str("\nend AxVerif.Generated\n");
    Some(("Wire.lean", s))
}
