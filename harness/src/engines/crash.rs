//! Engine `crash` (C01, C02, C08) — judge mode.
//!
//! One case = one workload over the public API. The workload is executed ONCE with the I/O tap installed;
//! the tap yields the ordered list of file mutations, and the harness inserts `call`/`ack` markers around
//! every call. For each selected crash point k (a prefix of the mutation list) the two files are rebuilt
//! in a fresh directory, `Database::open` is run on them, every table is read back, the database is dropped
//! (clean close), opened again and read again, and a probe statement is executed. The observation line
//! lists, per group of crash points with identical outcome: which units were acknowledged, which one was
//! in flight, and what the recovered database contains. The Lean model judges the observation.
//!
//! Case syntax:
//!   crashNN cache=<pages> | op ; op ; …          NN ∈ {01,02,08} selects the judged property
//!   ops:  crt tN | drp tN | ins tN id v | upd tN id v | del tN id | flush | vac
//!         batch op , op , …                       (Database::execute_batch)
//!         sK:begin | sK:<dml op> | sK:commit | sK:rollback | sK:drop
//! Observation syntax:
//!   run=<r1,r2,…> | k=<a>-<b> acked=<u,…> infl=<u|-> open=<ok|fail:<class>|panic> T=<t1:1=10,2=20/t2:-absent/…>
//!        again=<same|diff|fail> probe=<ok|fail> | k=… | trace=<abstract event string>
use super::{Case, Engine, Tier};
use crate::rng::Rng;
use axmosdb::verif::iotap::{self, IoEvent};
use axmosdb::runtime::QueryResult;
use axmosdb::{DBConfig, Database};
use std::collections::BTreeMap;
use std::path::{Path, PathBuf};
use std::sync::atomic::{AtomicU64, Ordering};

pub struct CrashEngine;

pub fn generated() -> Option<(&'static str, String)> {
    None
}

static COUNTER: AtomicU64 = AtomicU64::new(0);

fn scratch_dir(tag: &str) -> PathBuf {
    let n = COUNTER.fetch_add(1, Ordering::SeqCst);
    let d = std::env::temp_dir().join(format!("axv-crash-{}-{}-{}", std::process::id(), tag, n));
    let _ = std::fs::remove_dir_all(&d);
    std::fs::create_dir_all(&d).unwrap();
    d
}

#[derive(Clone, Debug)]
enum Dml {
    Crt(String),
    /// wide table: (id BIGINT, v INT, pad TEXT) — every insert carries ~600 bytes so that the log leaves block zero quickly;
    /// the model sees it as an ordinary table (pad is a function of nothing and is never selected)
    CrtW(String),
    /// indexed table: (id BIGINT, v INT) plus a unique secondary index on v (values of v are distinct; an autocommit insert
    /// may take over the v of a row whose autocommit DELETE committed earlier), created in the same call; table names start with `x`.
    /// After a crash every dump of such a table also compares, for the values present, the answer of `WHERE v = …`
    /// (index plan) with the rows of the scan.  No UPDATE is generated on these tables (stale index after a key UPDATE
    /// is a listed finding of C06, pinned by a test).
    CrtX(String),
    /// table with a UNIQUE(id) table constraint (names start with `u`): CREATE takes an object id for the table and one for
    /// the backing index, which is not logged separately
    CrtU(String),
    /// a multi-row UPDATE that fails on its last row after having rewritten the rows before it
    /// (`UPDATE t SET v = v + 7000 / (id - <last id>)`): no effect; the statement's undo is logged
    UpdFail(String, i64),
    Drp(String),
    Ins(String, i64, i64),
    Upd(String, i64, i64),
    Del(String, i64),
    /// ALTER TABLE t ADD COLUMN extra INT — only generated inside a session that is still open at every crash point
    /// (a committed or rolled-back ALTER of a populated table is a listed finding of C15); invisible to `SELECT id, v`
    Alt(String),
}

impl Dml {
    fn sql(&self) -> String {
        match self {
            Dml::Crt(t) => format!("CREATE TABLE {} (id BIGINT, v INT)", t),
            Dml::CrtW(t) => format!("CREATE TABLE {} (id BIGINT, v INT, pad TEXT)", t),
            Dml::CrtX(t) => format!("CREATE TABLE {} (id BIGINT, v INT)", t),
            Dml::CrtU(t) => format!("CREATE TABLE {} (id BIGINT, v INT, UNIQUE(id))", t),
            Dml::UpdFail(t, last) => format!("UPDATE {} SET v = v + 7000 / (id - {})", t, last),
            Dml::Drp(t) => format!("DROP TABLE {}", t),
            Dml::Ins(t, id, v) if t.starts_with('w') => {
                format!("INSERT INTO {} VALUES ({}, {}, '{}')", t, id, v, "p".repeat(600))
            }
            // rows longer than a page: overflow chains are allocated, and freed again by DELETE + VACUUM
            Dml::Ins(t, id, v) if t.starts_with('v') => {
                format!("INSERT INTO {} VALUES ({}, {}, '{}')", t, id, v, "q".repeat(4000 + (*id as usize % 5) * 1500))
            }
            Dml::Ins(t, id, v) => format!("INSERT INTO {} VALUES ({}, {})", t, id, v),
            Dml::Upd(t, id, v) => format!("UPDATE {} SET v = {} WHERE id = {}", t, v, id),
            Dml::Del(t, id) => format!("DELETE FROM {} WHERE id = {}", t, id),
            Dml::Alt(t) => format!("ALTER TABLE {} ADD COLUMN extra INT", t),
        }
    }
    fn parse(ws: &[&str]) -> Option<Dml> {
        Some(match ws {
            ["crt", t] if t.starts_with('w') || t.starts_with('v') => Dml::CrtW(t.to_string()),
            ["crt", t] if t.starts_with('x') => Dml::CrtX(t.to_string()),
            ["crt", t] if t.starts_with('u') => Dml::CrtU(t.to_string()),
            ["updf", t, last] => Dml::UpdFail(t.to_string(), last.parse().ok()?),
            ["crt", t] => Dml::Crt(t.to_string()),
            ["drp", t] => Dml::Drp(t.to_string()),
            ["ins", t, id, v] => Dml::Ins(t.to_string(), id.parse().ok()?, v.parse().ok()?),
            ["upd", t, id, v] => Dml::Upd(t.to_string(), id.parse().ok()?, v.parse().ok()?),
            ["del", t, id] => Dml::Del(t.to_string(), id.parse().ok()?),
            ["alt", t] => Dml::Alt(t.to_string()),
            _ => return None,
        })
    }
    fn show(&self) -> String {
        match self {
            Dml::Crt(t) | Dml::CrtW(t) | Dml::CrtX(t) | Dml::CrtU(t) => format!("crt {}", t),
            Dml::UpdFail(t, last) => format!("updf {} {}", t, last),
            Dml::Drp(t) => format!("drp {}", t),
            Dml::Ins(t, id, v) => format!("ins {} {} {}", t, id, v),
            Dml::Upd(t, id, v) => format!("upd {} {} {}", t, id, v),
            Dml::Del(t, id) => format!("del {} {}", t, id),
            Dml::Alt(t) => format!("alt {}", t),
        }
    }
    fn table(&self) -> &str {
        match self {
            Dml::Crt(t) | Dml::CrtW(t) | Dml::CrtX(t) | Dml::CrtU(t) | Dml::UpdFail(t, _) | Dml::Drp(t) | Dml::Ins(t, _, _) | Dml::Upd(t, _, _) | Dml::Del(t, _) | Dml::Alt(t) => t,
        }
    }
}

#[derive(Clone, Debug)]
enum Op {
    Auto(Dml),
    Batch(Vec<Dml>),
    Flush,
    Vacuum,
    SBegin(u32),
    SDml(u32, Dml),
    SCommit(u32),
    SRollback(u32),
    SDrop(u32),
}

fn parse_op(s: &str) -> Option<Op> {
    let s = s.trim();
    let ws: Vec<&str> = s.split_whitespace().collect();
    if ws.is_empty() {
        return None;
    }
    if ws[0] == "flush" && ws.len() == 1 {
        return Some(Op::Flush);
    }
    if ws[0] == "vac" && ws.len() == 1 {
        return Some(Op::Vacuum);
    }
    if ws[0] == "batch" {
        let rest = s.strip_prefix("batch")?;
        let mut v = Vec::new();
        for part in rest.split(',') {
            let pw: Vec<&str> = part.split_whitespace().collect();
            v.push(Dml::parse(&pw)?);
        }
        return Some(Op::Batch(v));
    }
    if let Some((sess, first)) = ws[0].split_once(':') {
        let k: u32 = sess.strip_prefix('s')?.parse().ok()?;
        return Some(match (first, ws.len()) {
            ("begin", 1) => Op::SBegin(k),
            ("commit", 1) => Op::SCommit(k),
            ("rollback", 1) => Op::SRollback(k),
            ("drop", 1) => Op::SDrop(k),
            _ => {
                let mut w2 = vec![first];
                w2.extend_from_slice(&ws[1..]);
                Op::SDml(k, Dml::parse(&w2)?)
            }
        });
    }
    Some(Op::Auto(Dml::parse(&ws)?))
}

fn show_op(op: &Op) -> String {
    match op {
        Op::Auto(d) => d.show(),
        Op::Batch(ds) => format!("batch {}", ds.iter().map(|d| d.show()).collect::<Vec<_>>().join(" , ")),
        Op::Flush => "flush".into(),
        Op::Vacuum => "vac".into(),
        Op::SBegin(k) => format!("s{}:begin", k),
        Op::SDml(k, d) => format!("s{}:{}", k, d.show()),
        Op::SCommit(k) => format!("s{}:commit", k),
        Op::SRollback(k) => format!("s{}:rollback", k),
        Op::SDrop(k) => format!("s{}:drop", k),
    }
}

fn table_names(ops: &[Op]) -> Vec<String> {
    let mut v: Vec<String> = Vec::new();
    let mut add = |d: &Dml| {
        if matches!(d, Dml::Crt(_) | Dml::CrtW(_) | Dml::CrtX(_) | Dml::CrtU(_)) && !v.contains(&d.table().to_string()) {
            v.push(d.table().to_string());
        }
    };
    for op in ops {
        match op {
            Op::Auto(d) | Op::SDml(_, d) => add(d),
            Op::Batch(ds) => ds.iter().for_each(&mut add),
            _ => {}
        }
    }
    v.sort();
    v
}

/// `t1:1=10,2=20/t2:absent/t3:` — rows sorted by (id, v); a table that cannot be read is `absent`.
fn dump_tables(db: &Database, tables: &[String]) -> String {
    let mut parts = Vec::new();
    for t in tables {
        match db.execute(&format!("SELECT id, v FROM {}", t)) {
            Ok(QueryResult::Rows(rows)) => {
                let mut rs: Vec<(i64, String)> = rows
                    .iterrows()
                    .map(|r| {
                        let cells: Vec<String> = r.iter().map(|v| v.to_string()).collect();
                        (cells[0].parse::<i64>().unwrap_or(i64::MIN), format!("{}={}", cells[0], cells[1]))
                    })
                    .collect();
                // side table of the committed-ALTER family: the added column shows as the marker row (-1, 1)
                // (not for `a9`, whose ALTER is never committed: that an open ALTER is visible to others is a listed finding of C15)
                if t.starts_with("a8") {
                    if let Ok(QueryResult::Rows(all)) = db.execute(&format!("SELECT * FROM {}", t)) {
                        if all.num_columns() >= 3 {
                            rs.push((-1, "-1=1".to_string()));
                        }
                    }
                }
                rs.sort();
                if t.starts_with('x') {
                    if let Some(bad) = index_disagrees(db, t, &rs) {
                        parts.push(format!("{}:IXDIFF({})", t, bad));
                        continue;
                    }
                }
                parts.push(format!("{}:{}", t, rs.into_iter().map(|x| x.1).collect::<Vec<_>>().join(",")));
            }
            Ok(_) => parts.push(format!("{}:weird", t)),
            Err(e) => {
                if std::env::var("AXH_DEBUG").is_ok() {
                    eprintln!("select {} failed: {}", t, e);
                }
                parts.push(format!("{}:absent", t))
            }
        }
    }
    parts.join("/")
}

/// For up to 16 of the values of `v` present in the scan (and one absent value), does `WHERE v = …` (answered through the
/// index) return exactly the scan's rows with that value?  Returns a description of the first disagreement.
fn index_disagrees(db: &Database, t: &str, scan: &[(i64, String)]) -> Option<String> {
    let mut vals: Vec<String> = scan.iter().filter_map(|(_, s)| s.split_once('=').map(|x| x.1.to_string())).collect();
    vals.sort();
    vals.dedup();
    vals.truncate(16);
    vals.push("123456".into());
    for v in vals {
        let mut want: Vec<String> = scan.iter().filter(|(_, s)| s.split_once('=').map(|x| x.1) == Some(v.as_str())).map(|x| x.1.clone()).collect();
        want.sort();
        let got = match db.execute(&format!("SELECT id, v FROM {} WHERE v = {}", t, v)) {
            Ok(QueryResult::Rows(rows)) => {
                let mut g: Vec<String> = rows
                    .iterrows()
                    .map(|r| {
                        let cells: Vec<String> = r.iter().map(|v| v.to_string()).collect();
                        format!("{}={}", cells[0], cells[1])
                    })
                    .collect();
                g.sort();
                g
            }
            Ok(_) => vec!["weird".into()],
            Err(e) => vec![format!("error:{}", e).replace(' ', "_")],
        };
        if got != want {
            if std::env::var("AXH_DEBUG").is_ok() {
                eprintln!("index disagreement on {} v={}: got {:?} want {:?}; plan {:?}", t, v, got, want, db.explain(&format!("SELECT id, v FROM {} WHERE v = {}", t, v)));
                eprintln!("  full scan: {:?}", scan);
                eprintln!("  v >= 0: {:?}", db.execute(&format!("SELECT id, v FROM {} WHERE v >= 0", t)).map(|r| format!("{:?}", r)));
            }
            return Some(format!("v={}:index={}:scan={}", v, got.join("+"), want.join("+")));
        }
    }
    None
}

fn err_class(e: &axmosdb::DatabaseError) -> &'static str {
    use axmosdb::DatabaseError::*;
    match e {
        Io(_) => "io",
        Query(_) => "query",
        Task(_) => "task",
        AlreadyExists(_) => "exists",
        NotFound(_) => "notfound",
        RecoveryFailed(_) => "recovery",
        Runtime(_) => "runtime",
        TransactionManagement(_) => "txn",
        Other(_) => "other",
    }
}

/// The two files as of a prefix of the event list.
#[derive(Default, Clone)]
struct Image {
    files: BTreeMap<String, Vec<u8>>,
}

fn fname(p: &Path) -> String {
    p.file_name().unwrap().to_string_lossy().to_string()
}

impl Image {
    fn apply(&mut self, e: &IoEvent) -> bool {
        match e {
            IoEvent::Create(p) => {
                self.files.insert(fname(p), Vec::new());
                true
            }
            IoEvent::Write { path, offset, data } => {
                let f = self.files.entry(fname(path)).or_default();
                let end = *offset as usize + data.len();
                if f.len() < end {
                    f.resize(end, 0);
                }
                f[*offset as usize..end].copy_from_slice(data);
                true
            }
            IoEvent::SetLen { path, len } => {
                let f = self.files.entry(fname(path)).or_default();
                f.resize(*len as usize, 0);
                true
            }
            IoEvent::Remove(p) => {
                self.files.remove(&fname(p));
                true
            }
            IoEvent::Sync(_) | IoEvent::Mark(_) => false,
        }
    }
    fn write_to(&self, dir: &Path) {
        for (n, d) in &self.files {
            std::fs::write(dir.join(n), d).unwrap();
        }
    }
}

/// The files as of the first `k` events under the second crash model: of every file, only what had been written
/// (or cut) before its last fsync within the prefix is there; creation and removal of files are kept.
fn strict_image(events: &[IoEvent], k: usize) -> Image {
    let mut last_sync: BTreeMap<String, usize> = BTreeMap::new();
    for (i, e) in events[..k].iter().enumerate() {
        if let IoEvent::Sync(p) = e {
            last_sync.insert(fname(p), i);
        }
    }
    let mut img = Image::default();
    for (i, e) in events[..k].iter().enumerate() {
        let keep = match e {
            IoEvent::Write { path, .. } | IoEvent::SetLen { path, .. } => last_sync.get(&fname(path)).is_some_and(|&j| i < j),
            _ => true,
        };
        if keep {
            img.apply(e);
        }
    }
    img
}

/// One character per I/O event: L/l = log write/sync, t = log truncate, D/d = database write/sync, T = database set_len,
/// J/j = journal write/sync, u = journal set_len.
fn ev_char(e: &IoEvent) -> Option<char> {
    let kind = |p: &Path| {
        let n = fname(p);
        if n.ends_with(".log") { 0 } else if n.ends_with(".journal") { 1 } else { 2 }
    };
    match e {
        IoEvent::Write { path, .. } => Some(['L', 'J', 'D'][kind(path)]),
        IoEvent::Sync(p) => Some(['l', 'j', 'd'][kind(p)]),
        IoEvent::SetLen { path, .. } => Some(['t', 'u', 'T'][kind(path)]),
        IoEvent::Create(_) => Some('C'),
        IoEvent::Remove(_) => Some('R'),
        IoEvent::Mark(_) => None,
    }
}

struct PointResult {
    open: String,
    tables: String,
    again: String,
    probe: String,
    /// page audit of the recovered image (token string of the pager engine, spaces replaced by `~`), `-` if not taken
    pg: String,
    /// crash points inside the recovery itself: `-` (not explored), `ok:<n>`, or the failing ones `j:<phase>:<what>,…`
    nest: String,
}

/// Opens an image and reads it back; no second open, no probe (used for crash points inside recovery).
fn open_and_dump(img: &Image, tables: &[String], cfg: DBConfig) -> Result<String, String> {
    let dir = scratch_dir("nest");
    img.write_to(&dir);
    let path = dir.join("test.db");
    let r = std::panic::catch_unwind(std::panic::AssertUnwindSafe(|| Database::open(&path, cfg)));
    let out = match r {
        Err(_) => Err("panic".to_string()),
        Ok(Err(e)) => {
            if std::env::var("AXH_DEBUG").is_ok() {
                eprintln!("nested open failed: {}", e);
            }
            Err(format!("fail:{}", err_class(&e)))
        }
        Ok(Ok(db)) => {
            let t = dump_tables(&db, tables);
            drop(db);
            Ok(t)
        }
    };
    let _ = std::fs::remove_dir_all(&dir);
    out
}

fn index_cols_of(tables: &[String]) -> Vec<(String, String)> {
    tables.iter().filter(|t| t.starts_with('x')).map(|t| (format!("{}_v", t), "v".to_string())).collect()
}

fn observe_image(img: &Image, tables: &[String], cfg: DBConfig, nested: bool, audit: bool) -> PointResult {
    let dir = scratch_dir("img");
    img.write_to(&dir);
    let path = dir.join("test.db");
    let mut res =
        PointResult { open: String::new(), tables: "-".into(), again: "-".into(), probe: "-".into(), nest: "-".into(), pg: "-".into() };
    if nested {
        iotap::install();
    }
    let r = std::panic::catch_unwind(std::panic::AssertUnwindSafe(|| Database::open(&path, cfg)));
    let rec_events = if nested { iotap::take() } else { Vec::new() };
    match r {
        Err(_) => res.open = "panic".into(),
        Ok(Err(e)) => {
            if std::env::var("AXH_DEBUG").is_ok() {
                eprintln!("open failed: {}", e);
            }
            res.open = format!("fail:{}", err_class(&e))
        }
        Ok(Ok(db)) => {
            res.open = "ok".into();
            res.tables = dump_tables(&db, tables);
            if audit {
                // page graph of the recovered database: every page owned exactly once (tree, overflow chain or free list),
                // trees ordered — judged by the proved checkers of C10/C11
                res.pg = super::pager::one_shot_page_audit(&db, &index_cols_of(tables)).replace(' ', "~");
            }
            drop(db); // clean close (checkpoint)
            if nested {
                // every prefix of the mutations recovery itself issued is a crash point inside recovery:
                // recovering again from there must give the same contents
                let all: String = rec_events.iter().filter_map(ev_char).collect();
                let mut img2 = img.clone();
                let mut bad: Vec<String> = Vec::new();
                let mut n = 0;
                let mut done = String::new();
                for e in &rec_events {
                    let changed = img2.apply(e);
                    if let Some(c) = ev_char(e) {
                        done.push(c);
                    }
                    if !changed {
                        continue;
                    }
                    n += 1;
                    match open_and_dump(&img2, tables, cfg) {
                        Ok(t) if t == res.tables => {}
                        Ok(t) => bad.push(format!("{}/{}:diff:{}", done, all, t.replace(',', ";"))),
                        Err(e) => bad.push(format!("{}/{}:{}", done, all, e)),
                    }
                }
                res.nest = if bad.is_empty() { format!("ok:{}", n) } else { bad.join(",") };
            }
            let r2 = std::panic::catch_unwind(std::panic::AssertUnwindSafe(|| Database::open(&path, cfg)));
            match r2 {
                Ok(Ok(db2)) => {
                    let t2 = dump_tables(&db2, tables);
                    res.again = if t2 == res.tables { "same".into() } else { format!("diff:{}", t2) };
                    // probe: the recovered database must be fully usable
                    let ok = db2.execute("CREATE TABLE zz_probe (id BIGINT, v INT)").is_ok()
                        && db2.execute("INSERT INTO zz_probe VALUES (1, 1)").is_ok()
                        && matches!(db2.execute("SELECT id, v FROM zz_probe"), Ok(QueryResult::Rows(r)) if r.len() == 1);
                    res.probe = if ok { "ok".into() } else { "fail".into() };
                    // … also for the tables it already holds: a new row must be accepted, found again, and be one more row
                    if ok {
                        for t in tables {
                            if t.starts_with('a') {
                                continue; // the side tables of the ALTER families may have a third column
                            }
                            let before = match db2.execute(&format!("SELECT id, v FROM {}", t)) {
                                Ok(QueryResult::Rows(r)) => r.len(),
                                _ => continue, // table absent in this image
                            };
                            let ins = if t.starts_with('w') || t.starts_with('v') {
                                format!("INSERT INTO {} VALUES (900001, 900001, 'p')", t)
                            } else {
                                format!("INSERT INTO {} VALUES (900001, 900001)", t)
                            };
                            let accepted = db2.execute(&ins).is_ok();
                            let found = matches!(db2.execute(&format!("SELECT id, v FROM {} WHERE id = 900001", t)), Ok(QueryResult::Rows(r)) if r.len() == 1);
                            let after = match db2.execute(&format!("SELECT id, v FROM {}", t)) {
                                Ok(QueryResult::Rows(r)) => r.len(),
                                _ => usize::MAX,
                            };
                            if !(accepted && found && after == before + 1) {
                                res.probe = format!("insert-into-{}:accepted={},found={},rows={}->{}", t, accepted, found, before, after);
                                break;
                            }
                        }
                    }
                    drop(db2);
                }
                Ok(Err(e)) => res.again = format!("fail:{}", err_class(&e)),
                Err(_) => res.again = "panic".into(),
            }
        }
    }
    let _ = std::fs::remove_dir_all(&dir);
    res
}

fn run_case(line: &str) -> String {
    let (head, body) = match line.split_once(" | ") {
        Some(x) => x,
        None => return "bad-op".into(),
    };
    let hw: Vec<&str> = head.split_whitespace().collect();
    if hw.len() != 2 || !hw[0].starts_with("crash") {
        return "bad-op".into();
    }
    let cache: usize = match hw[1].strip_prefix("cache=").and_then(|c| c.parse().ok()) {
        Some(c) => c,
        None => return "bad-op".into(),
    };
    let mut ops = Vec::new();
    for part in body.split(" ; ") {
        match parse_op(part) {
            Some(o) => ops.push(o),
            None => return "bad-op".into(),
        }
    }
    let tables = table_names(&ops);
    let cfg = DBConfig::builder().cache_size(cache).pool_size(2).build();

    // ---- run the workload once under the tap
    let dir = scratch_dir("run");
    let path = dir.join("test.db");
    iotap::install();
    iotap::mark("create");
    let db = match Database::create(&path, cfg) {
        Ok(db) => db,
        Err(_) => {
            iotap::take();
            return "obs create-failed".into();
        }
    };
    iotap::mark("created");
    let mut sessions: BTreeMap<u32, axmosdb::tcp::session::Session> = BTreeMap::new();
    let mut results: Vec<String> = Vec::new();
    for (i, op) in ops.iter().enumerate() {
        iotap::mark(&format!("call {}", i));
        let r: Result<(), String> = match op {
            Op::Auto(Dml::CrtX(t)) => db
                .execute(&Dml::CrtX(t.clone()).sql())
                .and_then(|_| db.execute(&format!("CREATE UNIQUE INDEX {}_v ON {} (v)", t, t)))
                .map(|_| ())
                .map_err(|_| "err".to_string()),
            Op::Auto(d) => db.execute(&d.sql()).map(|_| ()).map_err(|_| "err".to_string()),
            Op::Batch(ds) => {
                let sqls: Vec<String> = ds.iter().map(|d| d.sql()).collect();
                let refs: Vec<&str> = sqls.iter().map(|s| s.as_str()).collect();
                db.execute_batch(&refs).map(|_| ()).map_err(|_| "err".to_string())
            }
            Op::Flush => db.flush().map_err(|_| "err".to_string()),
            Op::Vacuum => db.vacuum().map(|_| ()).map_err(|_| "err".to_string()),
            Op::SBegin(k) => match db.session() {
                Ok(s) => {
                    sessions.insert(*k, s);
                    Ok(())
                }
                Err(_) => Err("err".into()),
            },
            Op::SDml(k, d) => match sessions.get_mut(k) {
                Some(s) => s.execute(&d.sql()).map(|_| ()).map_err(|_| "err".to_string()),
                None => Err("nosession".into()),
            },
            Op::SCommit(k) => match sessions.get_mut(k) {
                Some(s) => {
                    let r = s.commit_transaction().map_err(|_| "err".to_string());
                    sessions.remove(k);
                    r
                }
                None => Err("nosession".into()),
            },
            Op::SRollback(k) => match sessions.get_mut(k) {
                Some(s) => {
                    let r = s.abort_transaction().map_err(|_| "err".to_string());
                    sessions.remove(k);
                    r
                }
                None => Err("nosession".into()),
            },
            Op::SDrop(k) => {
                sessions.remove(k);
                Ok(())
            }
        };
        let tag = match &r {
            Ok(()) => "ok".to_string(),
            Err(e) => e.clone(),
        };
        iotap::mark(&format!("ack {} {}", i, tag));
        results.push(tag);
    }
    // what the live database holds at the end (sanity: must equal the model's final committed state)
    let live = dump_tables(&db, &tables);
    let live_pg = if hw[0] == "crash08" { super::pager::one_shot_page_audit(&db, &index_cols_of(&tables)).replace(' ', "~") } else { "-".to_string() };
    let events = iotap::take();
    // the recording has stopped: whatever closing the sessions and the database writes now is not part of any image
    drop(sessions);
    drop(db);

    // ---- crash points: every prefix after which the image differs from the previous one, once `create` returned
    let mut points: Vec<usize> = Vec::new(); // k = number of events applied
    let mut created_at = None;
    for (i, e) in events.iter().enumerate() {
        if let IoEvent::Mark(m) = e {
            if m == "created" {
                created_at = Some(i);
            }
        }
    }
    let created_at = created_at.unwrap_or(0);
    for (i, e) in events.iter().enumerate() {
        if i < created_at {
            continue;
        }
        match e {
            IoEvent::Write { .. } | IoEvent::SetLen { .. } | IoEvent::Create(_) | IoEvent::Remove(_) => points.push(i + 1),
            _ => {}
        }
    }
    points.push(created_at + 1);
    points.push(events.len());
    points.sort();
    points.dedup();
    // budget: at most MAXP points per case; keep every point adjacent to a sync / truncate / mark, sample the rest
    let maxp: usize = std::env::var("AXH_CRASH_POINTS").ok().and_then(|s| s.parse().ok()).unwrap_or(90);
    if points.len() > maxp {
        let mut keep: Vec<usize> = Vec::new();
        for &k in &points {
            let near = |j: usize| -> bool {
                j < events.len()
                    && matches!(&events[j], IoEvent::Sync(_) | IoEvent::SetLen { .. } | IoEvent::Mark(_))
            };
            if near(k) || (k >= 2 && near(k - 2)) {
                keep.push(k);
            }
        }
        let mut h: u64 = 1469598103934665603;
        for b in line.bytes() {
            h = (h ^ b as u64).wrapping_mul(1099511628211);
        }
        let mut rng = Rng::new(h);
        let mut rest: Vec<usize> = points.iter().cloned().filter(|k| !keep.contains(k)).collect();
        rng.shuffle(&mut rest);
        while keep.len() > maxp {
            let i = rng.below(keep.len() as u64) as usize;
            keep.swap_remove(i);
        }
        for k in rest {
            if keep.len() >= maxp {
                break;
            }
            keep.push(k);
        }
        keep.sort();
        keep.dedup();
        points = keep;
    }

    // ---- observe each crash point
    let mut img = Image::default();
    let mut applied = 0usize;
    let mut acked: Vec<usize> = Vec::new();
    let mut inflight: Option<usize> = None;
    let mut groups: Vec<(usize, usize, String)> = Vec::new();
    let mut call_at: usize = 0; // index of the latest `call` mark
    let mut nest_budget: usize = std::env::var("AXH_CRASH_NEST").ok().and_then(|s| s.parse().ok()).unwrap_or(8);
    let mut audit_budget: usize = std::env::var("AXH_CRASH_AUDIT").ok().and_then(|s| s.parse().ok()).unwrap_or(12);
    let mut strict_budget: usize = std::env::var("AXH_CRASH_STRICT").ok().and_then(|s| s.parse().ok()).unwrap_or(45);
    let mut strict_groups: Vec<(usize, String)> = Vec::new();
    let mut torn_budget: usize = std::env::var("AXH_CRASH_TORN").ok().and_then(|s| s.parse().ok()).unwrap_or(30);
    let mut torn_groups: Vec<(usize, String)> = Vec::new();
    for &k in &points {
        while applied < k {
            let e = &events[applied];
            img.apply(e);
            if let IoEvent::Mark(m) = e {
                let mw: Vec<&str> = m.split_whitespace().collect();
                match mw.as_slice() {
                    ["call", i] => {
                        inflight = i.parse().ok();
                        call_at = applied;
                    }
                    ["ack", i, tag] => {
                        inflight = None;
                        if *tag == "ok" {
                            acked.push(i.parse().unwrap());
                        }
                    }
                    _ => {}
                }
            }
            applied += 1;
        }
        // crash points inside recovery: only for C08, only where the log is non-trivial, at most NEST per case
        let nested = (hw[0] == "crash08" || hw[0] == "crash01") && nest_budget > 0 && inflight.is_some();
        if nested {
            nest_budget -= 1;
        }
        let audit = hw[0] == "crash08" && audit_budget > 0 && (nested || k % 7 == 0);
        if audit {
            audit_budget -= 1;
        }
        let pr = observe_image(&img, &tables, cfg, nested, audit);
        // phase of the call in flight: I/O done so far / all I/O of that call
        let ph = if inflight.is_some() {
            let done: String = events[call_at..k].iter().filter_map(ev_char).collect();
            let mut all = String::new();
            for e in &events[call_at + 1..] {
                if let IoEvent::Mark(_) = e {
                    break;
                }
                if let Some(c) = ev_char(e) {
                    all.push(c);
                }
            }
            format!("{}/{}", if done.is_empty() { "-" } else { &done }, if all.is_empty() { "-" } else { &all })
        } else {
            "-/-".to_string()
        };
        let desc = format!(
            "acked={} infl={} ph={} open={} T={} again={} probe={} nest={} pg={}",
            if acked.is_empty() { "-".to_string() } else { acked.iter().map(|u| u.to_string()).collect::<Vec<_>>().join(",") },
            inflight.map(|u| u.to_string()).unwrap_or_else(|| "-".into()),
            ph,
            pr.open,
            if pr.tables.is_empty() { "-".into() } else { pr.tables },
            pr.again,
            pr.probe,
            pr.nest,
            pr.pg
        );
        match groups.last_mut() {
            Some((_, b, d)) if *d == desc => *b = k,
            _ => groups.push((k, k, desc)),
        }
        // third crash model: the last write is torn — only its first half reached the file
        if torn_budget > 0 && k >= 1 && k % 3 == 0 {
            if let IoEvent::Write { path, offset, data } = &events[k - 1] {
                if data.len() >= 2 {
                    torn_budget -= 1;
                    let mut timg = Image::default();
                    for e in &events[..k - 1] {
                        timg.apply(e);
                    }
                    // the first half of the write arrived; what the file held before stays where the second half did not
                    // arrive; alternately, the part of the second half that lies beyond the old end of the file is absent,
                    // or the file was extended over it and it holds zeros
                    let half = data.len() / 2;
                    timg.apply(&IoEvent::Write { path: path.clone(), offset: *offset, data: data[..half].to_vec() });
                    if (k / 3) % 2 == 1 {
                        let end = *offset as usize + data.len();
                        let f = timg.files.entry(fname(path)).or_default();
                        if f.len() < end {
                            f.resize(end, 0);
                        }
                    }
                    let pr = observe_image(&timg, &tables, cfg, false, false);
                    let acked_s = if acked.is_empty() { "-".to_string() } else { acked.iter().map(|u| u.to_string()).collect::<Vec<_>>().join(",") };
                    torn_groups.push((
                        k,
                        format!(
                            "acked={} infl={} ph={} open={} T={} again={} probe={} nest=- torn={}",
                            acked_s,
                            inflight.map(|u| u.to_string()).unwrap_or_else(|| "-".into()),
                            ph,
                            pr.open,
                            if pr.tables.is_empty() { "-".into() } else { pr.tables },
                            pr.again,
                            pr.probe,
                            ev_char(&events[k - 1]).unwrap_or('?')
                        ),
                    ));
                }
            }
        }
        // second crash model: nothing written since the file's last fsync survives (the first one keeps every write)
        if strict_budget > 0 {
            let simg = strict_image(&events, k);
            if simg.files != img.files {
                strict_budget -= 1;
                let pr = observe_image(&simg, &tables, cfg, false, false);
                let acked_s = if acked.is_empty() { "-".to_string() } else { acked.iter().map(|u| u.to_string()).collect::<Vec<_>>().join(",") };
                strict_groups.push((
                    k,
                    format!(
                        "acked={} infl={} ph={} open={} T={} again={} probe={} nest=-",
                        acked_s,
                        inflight.map(|u| u.to_string()).unwrap_or_else(|| "-".into()),
                        ph,
                        pr.open,
                        if pr.tables.is_empty() { "-".into() } else { pr.tables },
                        pr.again,
                        pr.probe
                    ),
                ));
            }
        }
    }
    let _ = std::fs::remove_dir_all(&dir);

    // ---- abstract I/O trace for the protocol rules: L=log write, l=log sync, t=log truncate, D=db write, d=db sync,
    //      (i / )i = call / ack of op i
    //      journal protocol (tokens carry page numbers; a page size is the length of the first database write):
    //      D<p> = database page write, T<n> = database cut to n pages, Ja<b> = journal started for a checkpoint of b pages,
    //      J<p>= / J<p>! = checkpointed contents of page p saved (equal / not equal to the file at the last `Ja`),
    //      Jd = journal marked done, j = journal sync, u = journal emptied
    let mut trace = String::new();
    let mut img = Image::default();
    let mut ckpt_db: Vec<u8> = Vec::new();
    let mut page_size: usize = 0;
    let db_name = events
        .iter()
        .find_map(|e| if let IoEvent::Create(p) = e { Some(fname(p)) } else { None })
        .unwrap_or_default();
    for e in &events {
        match e {
            IoEvent::Write { path, offset, data } => {
                let n = fname(path);
                if n.ends_with(".log") {
                    trace.push('L');
                } else if n.ends_with(".journal") {
                    if *offset == 0 && data.len() == 32 {
                        let base = u64::from_le_bytes(data[24..32].try_into().unwrap());
                        trace.push_str(&format!("Ja{}", base));
                        ckpt_db = img.files.get(&db_name).cloned().unwrap_or_default();
                    } else if *offset == 8 && data.len() == 8 {
                        trace.push_str("Jd");
                    } else if data.len() >= 16 {
                        let pg = u64::from_le_bytes(data[0..8].try_into().unwrap()) as usize;
                        let body = &data[16..];
                        let same = page_size > 0
                            && body.len() == page_size
                            && ckpt_db.get(pg * page_size..(pg + 1) * page_size) == Some(body);
                        trace.push_str(&format!("J{}{}", pg, if same { '=' } else { '!' }));
                    } else {
                        trace.push_str("J?");
                    }
                } else {
                    if page_size == 0 {
                        page_size = data.len();
                    }
                    let ps = page_size.max(1);
                    for k in 0..(data.len() / ps).max(1) {
                        trace.push_str(&format!("D{}", *offset as usize / ps + k));
                    }
                }
            }
            IoEvent::Sync(p) => {
                let n = fname(p);
                trace.push(if n.ends_with(".log") { 'l' } else if n.ends_with(".journal") { 'j' } else { 'd' })
            }
            IoEvent::SetLen { path, len } => {
                let n = fname(path);
                if n.ends_with(".log") {
                    trace.push('t')
                } else if n.ends_with(".journal") {
                    trace.push('u')
                } else {
                    trace.push_str(&format!("T{}", *len as usize / page_size.max(1)))
                }
            }
            IoEvent::Create(_) => trace.push('C'),
            IoEvent::Remove(_) => trace.push('R'),
            IoEvent::Mark(m) => {
                let mw: Vec<&str> = m.split_whitespace().collect();
                match mw.as_slice() {
                    ["call", i] => trace.push_str(&format!("({}", i)),
                    ["ack", i, tag] => trace.push_str(&format!("){}{}", i, if *tag == "ok" { "+" } else { "-" })),
                    _ => {}
                }
            }
        }
        img.apply(e);
    }
    let mut out = format!("run={} live={} livepg={}", results.join(","), if live.is_empty() { "-".into() } else { live }, live_pg);
    for (a, b, d) in groups {
        out.push_str(&format!(" | k={}-{} {}", a, b, d));
    }
    for (k, d) in strict_groups {
        out.push_str(&format!(" | k=s{}-s{} {}", k, k, d));
    }
    for (k, d) in torn_groups {
        out.push_str(&format!(" | k=t{}-t{} {}", k, k, d));
    }
    out.push_str(&format!(" ## points={} events={} trace={}", points.len(), events.len(), trace));
    out
}

impl Engine for CrashEngine {
    fn timeout_ms(&self) -> u64 {
        120_000
    }

    fn exec(&mut self, line: &str) -> String {
        // the library prints to stdout on some paths (CREATE INDEX): keep that out of the line protocol
        let guard = crate::util::StdoutSilencer::new();
        let out = run_case(line);
        drop(guard);
        out
    }

    fn gen_cases(&self, rng: &mut Rng, tier: Tier) -> Vec<Case> {
        let prop = std::env::var("AXH_PROP").unwrap_or_else(|_| "C01".into());
        let head = match prop.as_str() {
            "C02" => "crash02",
            "C08" => "crash08",
            _ => "crash01",
        };
        let n = if tier == Tier::Quick { 40 } else { 400 };
        let mut cases = Vec::new();
        for i in 0..n {
            let (ops, tags, cache) = gen_workload(rng, head, i);
            let line = format!("{} cache={} | {}", head, cache, ops.iter().map(show_op).collect::<Vec<_>>().join(" ; "));
            let mut t: Vec<&str> = tags.iter().map(|s| s.as_str()).collect();
            t.push("nt");
            cases.push(Case::new(line, &t));
        }
        cases
    }
}

/// Workload families. `clean`: tables created and checkpointed first, every transaction finished, checkpoints only
/// between transactions, inserts/updates/deletes by autocommit, committed and rolled-back insert-only sessions, batches,
/// failing statements. Each other family adds exactly one feature that is (or was) a known-finding region:
///   open_txn      a session that is still open at the end (and while other units commit)
///   rb_update     a rolled-back session containing UPDATE / DELETE
///   no_init_ckpt  no checkpoint after the CREATE TABLEs (the log reaches back to table creation)
///   drop_table    DROP TABLE and re-CREATE
///   vacuum        VACUUM in the middle
///   steal         wide rows and a cache of 8-16 frames: dirty pages are evicted (written in place) between checkpoints
///   overflow      rows longer than a page (overflow chains), DELETE + VACUUM in the middle so that freed pages are re-used
///   indexed       tables with a unique secondary index (index plan vs scan compared at every crash point)
///   mixed_txn     committed sessions that UPDATE / DELETE older rows, span two tables, or create a table (commit or rollback)
///   big_log       wide rows and 60–120 steps: the log spans several blocks between checkpoints
fn gen_workload(rng: &mut Rng, _head: &str, idx: usize) -> (Vec<Op>, Vec<String>, usize) {
    let family = match idx % 10 {
        0..=1 => "clean",
        // committed session transactions that also UPDATE and DELETE rows committed earlier, span both tables, or create
        // a table and fill it (committed or rolled back)
        2 => "mixed_txn",
        // tables with a secondary index on v (names x*): the index must agree with the table at every crash point
        3 => "indexed",
        4 => "open_txn",
        5 => "rb_update",
        6 => "no_init_ckpt",
        7 => "drop_table",
        8 => "vacuum",
        // steal: wide rows and a cache of a few frames, so that dirty pages are evicted (written in place) between checkpoints
        _ => if idx % 20 == 9 { "steal" } else if idx % 40 == 19 { "overflow" } else { "big_log" },
    };
    let mut ops = Vec::new();
    let mut tags: Vec<String> = vec![format!("0fam_{}", family)];
    let ntables = 1 + rng.below(2) as usize;
    // big_log: wide rows (table names starting with `w`), so that the log spans several blocks between checkpoints
    let wide = family == "big_log" || family == "steal" || family == "overflow";
    let indexed = family == "indexed";
    let constrained = family == "clean" && idx % 20 == 10;
    let prefix = if family == "overflow" { "v" } else if wide { "w" } else if indexed { "x" } else if constrained { "u" } else { "t" };
    let tables: Vec<String> = (1..=ntables).map(|i| format!("{}{}", prefix, i)).collect();
    for t in &tables {
        ops.push(Op::Auto(if wide { Dml::CrtW(t.clone()) } else if indexed { Dml::CrtX(t.clone()) } else if constrained { Dml::CrtU(t.clone()) } else { Dml::Crt(t.clone()) }));
    }
    if constrained {
        tags.push("table_constraint".into());
    }
    if family != "no_init_ckpt" {
        ops.push(Op::Flush);
    }
    let mut next_id: BTreeMap<String, i64> = tables.iter().map(|t| (t.clone(), 1)).collect();
    let mut live: BTreeMap<String, Vec<i64>> = tables.iter().map(|t| (t.clone(), vec![])).collect();
    let long = idx % 4 == 0;
    let steps = if family == "overflow" { 20 + rng.below(25) as usize } else if wide { 60 + rng.below(60) as usize } else { 4 + rng.below(if long { 40 } else { 10 }) as usize };
    let mut sess = 0u32;
    let mut special_done = false;
    // indexed family: v is unique per table; values freed by a committed autocommit DELETE (first table only) may be taken over
    let uniq_v = |t: &str, id: i64| -> i64 { 5000 + id * 3 + if t.ends_with('2') { 1 } else { 0 } };
    let mut val_of: BTreeMap<(String, i64), i64> = BTreeMap::new();
    let mut freed_v: Vec<i64> = Vec::new();
    let mut created_in_session: Vec<String> = Vec::new();
    let mut altered = false;
    for step in 0..steps {
        let t = rng.pick(&tables).clone();
        // the family's special feature, once, somewhere in the middle
        if !special_done && step >= steps / 3 {
            special_done = true;
            match family {
                "open_txn" if idx % 20 == 14 => {
                    // an ALTER TABLE that is still open at every later crash point, on a table nobody else touches afterwards
                    let side = "a9".to_string();
                    // (the table stays empty: reading a populated table while its ALTER is open is a listed finding of C15)
                    ops.push(Op::Auto(Dml::Crt(side.clone())));
                    ops.push(Op::Flush);
                    sess += 1;
                    ops.push(Op::SBegin(sess));
                    ops.push(Op::SDml(sess, Dml::Alt(side.clone())));
                    tags.push("open_alter".into());
                    continue;
                }
                "open_txn" => {
                    sess += 1;
                    ops.push(Op::SBegin(sess));
                    for _ in 0..1 + rng.below(3) {
                        let id = next_id[&t];
                        *next_id.get_mut(&t).unwrap() += 1;
                        ops.push(Op::SDml(sess, Dml::Ins(t.clone(), id, rng.range(0, 99))));
                    }
                    // never committed, never closed
                    continue;
                }
                "rb_update" => {
                    if !live[&t].is_empty() {
                        sess += 1;
                        ops.push(Op::SBegin(sess));
                        let id = *rng.pick(&live[&t]);
                        if rng.chance(1, 2) {
                            ops.push(Op::SDml(sess, Dml::Upd(t.clone(), id, rng.range(3000, 4000))));
                        } else {
                            ops.push(Op::SDml(sess, Dml::Del(t.clone(), id)));
                        }
                        ops.push(Op::SRollback(sess));
                    } else {
                        special_done = false;
                    }
                    continue;
                }
                "drop_table" => {
                    ops.push(Op::Auto(Dml::Drp(t.clone())));
                    live.get_mut(&t).unwrap().clear();
                    if rng.chance(2, 3) {
                        ops.push(Op::Auto(Dml::Crt(t.clone())));
                    } else {
                        // keep using the other table only
                        if tables.len() == 1 {
                            ops.push(Op::Auto(Dml::Crt(t.clone())));
                        }
                    }
                    continue;
                }
                "vacuum" => {
                    ops.push(Op::Vacuum);
                    continue;
                }
                "mixed_txn" => {
                    // once per workload: a committing session whose second statement fails after having rewritten rows
                    sess += 1;
                    ops.push(Op::SBegin(sess));
                    let mut last = 0;
                    for _ in 0..2 {
                        let id = next_id[&t];
                        *next_id.get_mut(&t).unwrap() += 1;
                        ops.push(Op::SDml(sess, Dml::Ins(t.clone(), id, rng.range(0, 99))));
                        live.get_mut(&t).unwrap().push(id);
                        last = id;
                    }
                    ops.push(Op::SDml(sess, Dml::UpdFail(t.clone(), last)));
                    let id = next_id[&t];
                    *next_id.get_mut(&t).unwrap() += 1;
                    ops.push(Op::SDml(sess, Dml::Ins(t.clone(), id, rng.range(0, 99))));
                    live.get_mut(&t).unwrap().push(id);
                    ops.push(Op::SCommit(sess));
                    tags.push("session_failed_multirow_update".into());
                    continue;
                }
                "overflow" => {
                    // free the overflow chains of the rows deleted so far, so that later rows re-use their pages
                    for _ in 0..2 {
                        if let Some(&id) = live[&t].first() {
                            ops.push(Op::Auto(Dml::Del(t.clone(), id)));
                            live.get_mut(&t).unwrap().remove(0);
                        }
                    }
                    ops.push(Op::Vacuum);
                    continue;
                }
                _ => {}
            }
        }
        if !hasTable(&ops, &t) {
            continue;
        }
        match rng.below(12) {
            0..=4 => {
                let id = next_id[&t];
                *next_id.get_mut(&t).unwrap() += 1;
                let v = if indexed {
                    if rng.chance(1, 4) && !freed_v.is_empty() {
                        tags.push("reuse_deleted_key".into());
                        freed_v.pop().unwrap()
                    } else {
                        uniq_v(&t, id)
                    }
                } else {
                    rng.range(-50, 500)
                };
                ops.push(Op::Auto(Dml::Ins(t.clone(), id, v)));
                live.get_mut(&t).unwrap().push(id);
                val_of.insert((t.clone(), id), v);
                tags.push("auto_insert".into());
            }
            5 => {
                if let Some(&id) = live[&t].first() {
                    ops.push(Op::Auto(Dml::Del(t.clone(), id)));
                    live.get_mut(&t).unwrap().remove(0);
                    if let Some(v) = val_of.get(&(t.clone(), id)) {
                        if indexed && t == tables[0] {
                            freed_v.push(*v);
                        }
                    }
                    tags.push("auto_delete".into());
                }
            }
            6 => {
                if !live[&t].is_empty() && !indexed {
                    let id = *rng.pick(&live[&t]);
                    ops.push(Op::Auto(Dml::Upd(t.clone(), id, rng.range(1000, 2000))));
                    tags.push("auto_update".into());
                }
            }
            7 => {
                ops.push(Op::Flush);
                tags.push("checkpoint".into());
            }
            8 => {
                sess += 1;
                ops.push(Op::SBegin(sess));
                for _ in 0..1 + rng.below(3) {
                    let id = next_id[&t];
                    *next_id.get_mut(&t).unwrap() += 1;
                    ops.push(Op::SDml(sess, Dml::Ins(t.clone(), id, if indexed { uniq_v(&t, id) } else { rng.range(0, 99) })));
                    live.get_mut(&t).unwrap().push(id);
                }
                if family == "mixed_txn" && live[&t].len() >= 2 {
                    // a statement that fails on its last row after having rewritten the rows before it; the transaction goes on
                    let last = *live[&t].iter().max().unwrap();
                    ops.push(Op::SDml(sess, Dml::UpdFail(t.clone(), last)));
                    tags.push("session_failed_multirow_update".into());
                }
                if family == "mixed_txn" {
                    // rows committed before this transaction began
                    let older: Vec<i64> = live[&t].iter().cloned().filter(|i| *i < next_id[&t] - 3).collect();
                    if !older.is_empty() && rng.chance(2, 3) {
                        let id = *rng.pick(&older);
                        ops.push(Op::SDml(sess, Dml::Upd(t.clone(), id, rng.range(2000, 2999))));
                        tags.push("session_update".into());
                    }
                    if older.len() >= 2 && rng.chance(1, 2) {
                        let id = older[0];
                        ops.push(Op::SDml(sess, Dml::Del(t.clone(), id)));
                        live.get_mut(&t).unwrap().retain(|x| *x != id);
                        tags.push("session_delete".into());
                    }
                    if tables.len() > 1 && rng.chance(1, 2) {
                        let other = tables.iter().find(|x| **x != t).unwrap().clone();
                        if hasTable(&ops, &other) {
                            let id = next_id[&other];
                            *next_id.get_mut(&other).unwrap() += 1;
                            ops.push(Op::SDml(sess, Dml::Ins(other.clone(), id, rng.range(0, 99))));
                            live.get_mut(&other).unwrap().push(id);
                            tags.push("session_two_tables".into());
                        }
                    }
                }
                ops.push(Op::SCommit(sess));
                tags.push("session_commit".into());
                if family == "mixed_txn" && !altered && rng.chance(1, 3) {
                    // a committed ALTER TABLE on an empty side table (redo of ALTER), autocommit or in a session
                    altered = true;
                    let side = "a8".to_string();
                    ops.push(Op::Auto(Dml::Crt(side.clone())));
                    if rng.chance(1, 2) {
                        ops.push(Op::Flush);
                    }
                    if rng.chance(1, 2) {
                        ops.push(Op::Auto(Dml::Alt(side.clone())));
                    } else {
                        sess += 1;
                        ops.push(Op::SBegin(sess));
                        ops.push(Op::SDml(sess, Dml::Alt(side.clone())));
                        ops.push(Op::SCommit(sess));
                    }
                    tags.push("committed_alter".into());
                }
                if family == "mixed_txn" && rng.chance(1, 3) {
                    // DDL inside a transaction
                    let extra = format!("t{}", 4 + rng.below(3));
                    if !hasTable(&ops, &extra) && !created_in_session.contains(&extra) {
                        created_in_session.push(extra.clone());
                        sess += 1;
                        ops.push(Op::SBegin(sess));
                        ops.push(Op::SDml(sess, Dml::Crt(extra.clone())));
                        ops.push(Op::SDml(sess, Dml::Ins(extra.clone(), 1, rng.range(0, 99))));
                        ops.push(Op::SDml(sess, Dml::Ins(extra.clone(), 2, rng.range(0, 99))));
                        if rng.chance(2, 3) {
                            ops.push(Op::SCommit(sess));
                            tags.push("session_ddl_commit".into());
                        } else {
                            ops.push(Op::SRollback(sess));
                            tags.push("session_ddl_rollback".into());
                        }
                    }
                }
            }
            9 => {
                sess += 1;
                ops.push(Op::SBegin(sess));
                for _ in 0..1 + rng.below(3) {
                    let id = next_id[&t];
                    *next_id.get_mut(&t).unwrap() += 1;
                    ops.push(Op::SDml(sess, Dml::Ins(t.clone(), id, if indexed { uniq_v(&t, id) } else { rng.range(0, 99) })));
                }
                ops.push(Op::SRollback(sess));
                tags.push("session_rollback".into());
            }
            10 => {
                let mut ds = Vec::new();
                for _ in 0..2 + rng.below(3) {
                    let id = next_id[&t];
                    *next_id.get_mut(&t).unwrap() += 1;
                    ds.push(Dml::Ins(t.clone(), id, if indexed { uniq_v(&t, id) } else { rng.range(0, 99) }));
                    live.get_mut(&t).unwrap().push(id);
                }
                ops.push(Op::Batch(ds));
                tags.push("batch".into());
            }
            _ => {
                // a failing autocommit statement, of several kinds (each must leave no trace, also in the log replay)
                match rng.below(3) {
                    0 => ops.push(Op::Auto(Dml::Ins("nosuch".into(), 1, 1))),
                    1 => ops.push(Op::Auto(if wide { Dml::CrtW(t.clone()) } else if indexed { Dml::CrtX(t.clone()) } else if constrained { Dml::CrtU(t.clone()) } else { Dml::Crt(t.clone()) })), // already exists
                    _ => ops.push(Op::Auto(Dml::Drp("nosuch".into()))),
                }
                tags.push("failed_stmt".into());
                // in a third of the cases a new table is created right afterwards and used
                if rng.chance(1, 3) && family == "clean" {
                    let extra = format!("t{}", 7 + rng.below(3));
                    if !hasTable(&ops, &extra) {
                        ops.push(Op::Auto(Dml::Crt(extra.clone())));
                        ops.push(Op::Auto(Dml::Ins(extra.clone(), 1, rng.range(0, 99))));
                        tags.push("create_after_failed_stmt".into());
                    }
                }
            }
        }
    }
    tags.sort();
    tags.dedup();
    let cache = if family == "steal" { 8 + 4 * rng.below(3) as usize } else if family == "overflow" && idx % 80 == 59 { 24 } else { 10000 };
    (ops, tags, cache)
}

/// does table `t` exist after the (all successful) DDL of `ops`?
#[allow(non_snake_case)]
fn hasTable(ops: &[Op], t: &str) -> bool {
    let mut exists = false;
    for op in ops {
        if let Op::Auto(Dml::Crt(x)) | Op::Auto(Dml::CrtW(x)) | Op::Auto(Dml::CrtX(x)) | Op::Auto(Dml::CrtU(x)) = op {
            if x == t {
                exists = true;
            }
        }
        if let Op::Auto(Dml::Drp(x)) = op {
            if x == t {
                exists = false;
            }
        }
    }
    exists
}
