//! Engine `vacuum` (C13): histories with VACUUM at arbitrary points (and optional reopen) through the public API
//! (`Database::create/open/execute/execute_batch/session/vacuum`) against `Model/Db.lean` + `Model/Vacuum.lean`.
//! Case syntax: see `cfg/C13.py`.  The session / statement syntax is the one of engine `hist`; the parsing and
//! canonicalisation code is a private copy (engine `hist` belongs to C03/C04 and changes independently).
use super::{Case, Engine, Tier};
use crate::rng::Rng;
use axmosdb::runtime::QueryResult;
use axmosdb::tcp::session::Session;
use axmosdb::{DBConfig, DataType, Database};
use std::collections::{BTreeMap, BTreeSet};
use std::sync::atomic::{AtomicU64, Ordering};

pub struct VacuumEngine;

// ------------------------------------------------------------------------------------------------ case syntax

#[derive(Clone, Debug, PartialEq)]
enum Val {
    Int(i64),
    Null,
    Text(String),
}

#[derive(Clone, Debug)]
struct Col {
    name: String,
    ty: String, // big | int | text
    not_null: bool,
    unique: bool,
}

#[derive(Clone, Debug)]
struct Table {
    name: String,
    cols: Vec<Col>,
}

#[derive(Clone, Debug)]
struct Pred {
    col: String,
    op: String, // eq ne lt le gt ge
    val: Val,
}

#[derive(Clone, Debug)]
enum Stmt {
    Sel { table: String, pred: Option<Pred> },
    Ins { table: String, rows: Vec<Vec<Val>> },
    Upd { table: String, col: String, add: bool, val: Val, pred: Option<Pred> },
    Del { table: String, pred: Option<Pred> },
}

#[derive(Clone, Debug)]
enum Op {
    Begin(String),
    Commit(String),
    Rollback(String),
    Drop(String),
    Exec(String, Stmt),
    Auto(Stmt),
    Batch(Vec<Stmt>),
    /// `vac`: Database::vacuum
    Vac,
    /// `vacchk`: SELECT * of every table, Database::vacuum, SELECT * of every table; the two must agree
    VacChk,
    /// `reopen`: every open session is dropped, the Database handle is dropped, Database::open
    Reopen,
}

#[derive(Clone, Debug)]
struct Setup {
    tables: Vec<Table>,
    rows: Vec<(String, Vec<Val>)>,
    fresh: bool,
}

fn parse_val(s: &str) -> Option<Val> {
    if s == "null" {
        return Some(Val::Null);
    }
    if s.len() >= 2 && s.starts_with('\'') && s.ends_with('\'') {
        let body = &s[1..s.len() - 1];
        if body.chars().all(|c| c.is_ascii_lowercase()) {
            return Some(Val::Text(body.to_string()));
        }
        return None;
    }
    let n: i64 = s.parse().ok()?;
    if n.to_string() != s || n.abs() > 1_000_000_000 {
        return None;
    }
    Some(Val::Int(n))
}

fn ident(s: &str) -> bool {
    !s.is_empty() && s.chars().all(|c| c.is_ascii_lowercase() || c.is_ascii_digit()) && s.chars().next().unwrap().is_ascii_lowercase()
}

fn parse_table(spec: &str) -> Option<Table> {
    let (name, rest) = spec.split_once('(')?;
    let rest = rest.strip_suffix(')')?;
    if !ident(name) {
        return None;
    }
    let mut cols = Vec::new();
    for c in rest.split(',') {
        let (cn, ty) = c.split_once(':')?;
        let mut ty = ty.to_string();
        let mut not_null = false;
        let mut unique = false;
        loop {
            if let Some(t) = ty.strip_suffix('!') {
                not_null = true;
                ty = t.to_string();
            } else if let Some(t) = ty.strip_suffix('*') {
                unique = true;
                ty = t.to_string();
            } else {
                break;
            }
        }
        if !ident(cn) || !matches!(ty.as_str(), "big" | "int" | "text") {
            return None;
        }
        cols.push(Col { name: cn.to_string(), ty, not_null, unique });
    }
    if cols.is_empty() {
        return None;
    }
    Some(Table { name: name.to_string(), cols })
}

fn parse_setup(s: &str) -> Option<Setup> {
    let mut st = Setup { tables: vec![], rows: vec![], fresh: false };
    for w in s.split_whitespace() {
        if w == "fresh" {
            st.fresh = true;
        } else if let Some(t) = w.strip_prefix("tab=") {
            st.tables.push(parse_table(t)?);
        } else if let Some(r) = w.strip_prefix("row=") {
            let (t, vs) = r.split_once(':')?;
            let vals: Option<Vec<Val>> = vs.split(',').map(parse_val).collect();
            st.rows.push((t.to_string(), vals?));
        } else {
            return None;
        }
    }
    Some(st)
}

fn parse_pred(ws: &[&str]) -> Option<Option<Pred>> {
    match ws {
        [] => Some(None),
        ["where", col, op, val] => {
            if !ident(col) || !matches!(*op, "eq" | "ne" | "lt" | "le" | "gt" | "ge") {
                return None;
            }
            Some(Some(Pred { col: col.to_string(), op: op.to_string(), val: parse_val(val)? }))
        }
        _ => None,
    }
}

fn parse_stmt(ws: &[&str]) -> Option<Stmt> {
    match ws {
        ["sel", t, rest @ ..] if ident(t) => Some(Stmt::Sel { table: t.to_string(), pred: parse_pred(rest)? }),
        ["del", t, rest @ ..] if ident(t) => Some(Stmt::Del { table: t.to_string(), pred: parse_pred(rest)? }),
        ["upd", t, col, how, val, rest @ ..] if ident(t) && ident(col) && (*how == "set" || *how == "add") => Some(Stmt::Upd {
            table: t.to_string(),
            col: col.to_string(),
            add: *how == "add",
            val: parse_val(val)?,
            pred: parse_pred(rest)?,
        }),
        ["ins", t, rest @ ..] if ident(t) && !rest.is_empty() => {
            let mut rows = Vec::new();
            for r in rest.split(|w| *w == ",") {
                if r.is_empty() {
                    return None;
                }
                let vals: Option<Vec<Val>> = r.iter().map(|v| parse_val(v)).collect();
                rows.push(vals?);
            }
            Some(Stmt::Ins { table: t.to_string(), rows })
        }
        _ => None,
    }
}

fn sess_name(s: &str) -> bool {
    s.len() >= 2 && s.starts_with('s') && s[1..].chars().all(|c| c.is_ascii_digit())
}

fn parse_op(s: &str) -> Option<Op> {
    let ws: Vec<&str> = s.split_whitespace().collect();
    match ws.as_slice() {
        ["vac"] => Some(Op::Vac),
        ["vacchk"] => Some(Op::VacChk),
        ["reopen"] => Some(Op::Reopen),
        ["db", "batch", rest @ ..] => {
            let mut stmts = Vec::new();
            for part in rest.split(|w| *w == "&") {
                stmts.push(parse_stmt(part)?);
            }
            Some(Op::Batch(stmts))
        }
        ["db", rest @ ..] => Some(Op::Auto(parse_stmt(rest)?)),
        [s, "begin"] if sess_name(s) => Some(Op::Begin(s.to_string())),
        [s, "commit"] if sess_name(s) => Some(Op::Commit(s.to_string())),
        [s, "rollback"] if sess_name(s) => Some(Op::Rollback(s.to_string())),
        [s, "drop"] if sess_name(s) => Some(Op::Drop(s.to_string())),
        [s, rest @ ..] if sess_name(s) => Some(Op::Exec(s.to_string(), parse_stmt(rest)?)),
        _ => None,
    }
}

fn parse_case(line: &str) -> Option<(Setup, Vec<Op>)> {
    let body = line.trim().strip_prefix("vac ")?;
    let (setup, ops) = body.split_once('|')?;
    let setup = parse_setup(setup)?;
    let mut out = Vec::new();
    let ops = ops.trim();
    if !ops.is_empty() {
        for o in ops.split(" ; ") {
            out.push(parse_op(o)?);
        }
    }
    Some((setup, out))
}

/// `cycles rows=<n> cycles=<c> reopen=<k> how=auto|sess|batch|rbk`
struct Cycles {
    rows: i64,
    cycles: i64,
    reopen: i64, // 0 = never, k = reopen after every k-th cycle
    how: String,
}

fn parse_cycles(line: &str) -> Option<Cycles> {
    let body = line.trim().strip_prefix("cycles ")?;
    let mut c = Cycles { rows: 0, cycles: 0, reopen: 0, how: String::new() };
    let num = |s: &str| -> Option<i64> {
        let n: i64 = s.parse().ok()?;
        if n.to_string() != s || n < 0 || n > 100_000 { None } else { Some(n) }
    };
    let ws: Vec<&str> = body.split_whitespace().collect();
    if ws.len() != 4 {
        return None;
    }
    c.rows = num(ws[0].strip_prefix("rows=")?)?;
    c.cycles = num(ws[1].strip_prefix("cycles=")?)?;
    c.reopen = num(ws[2].strip_prefix("reopen=")?)?;
    c.how = ws[3].strip_prefix("how=")?.to_string();
    if !matches!(c.how.as_str(), "auto" | "sess" | "batch" | "rbk") || c.rows < 1 || c.rows > 2000 || c.cycles < 1 || c.cycles > 200 {
        return None;
    }
    Some(c)
}

// ------------------------------------------------------------------------------------------------ SQL text

fn sql_val(v: &Val) -> String {
    match v {
        Val::Int(n) => n.to_string(),
        Val::Null => "NULL".into(),
        Val::Text(s) => format!("'{}'", s),
    }
}

fn sql_pred(p: &Option<Pred>) -> String {
    match p {
        None => String::new(),
        Some(p) => {
            let op = match p.op.as_str() {
                "eq" => "=",
                "ne" => "<>",
                "lt" => "<",
                "le" => "<=",
                "gt" => ">",
                _ => ">=",
            };
            format!(" WHERE {} {} {}", p.col, op, sql_val(&p.val))
        }
    }
}

fn sql_of(s: &Stmt) -> String {
    match s {
        Stmt::Sel { table, pred } => format!("SELECT * FROM {}{}", table, sql_pred(pred)),
        Stmt::Del { table, pred } => format!("DELETE FROM {}{}", table, sql_pred(pred)),
        Stmt::Upd { table, col, add, val, pred } => {
            if *add {
                format!("UPDATE {} SET {} = {} + {}{}", table, col, col, sql_val(val), sql_pred(pred))
            } else {
                format!("UPDATE {} SET {} = {}{}", table, col, sql_val(val), sql_pred(pred))
            }
        }
        Stmt::Ins { table, rows } => {
            let rs: Vec<String> =
                rows.iter().map(|r| format!("({})", r.iter().map(sql_val).collect::<Vec<_>>().join(", "))).collect();
            format!("INSERT INTO {} VALUES {}", table, rs.join(", "))
        }
    }
}

fn sql_create(t: &Table) -> String {
    let mut cols: Vec<String> = Vec::new();
    let mut uniq: Vec<String> = Vec::new();
    for c in &t.cols {
        let ty = match c.ty.as_str() {
            "big" => "BIGINT",
            "int" => "INT",
            _ => "TEXT",
        };
        cols.push(format!("{} {}{}", c.name, ty, if c.not_null { " NOT NULL" } else { "" }));
        if c.unique {
            uniq.push(format!("UNIQUE({})", c.name));
        }
    }
    cols.extend(uniq);
    format!("CREATE TABLE {} ({})", t.name, cols.join(", "))
}

// ------------------------------------------------------------------------------------------------ execution

/// Error classes, read off the `Display` prefix (every error crosses the task runner as a string).
fn err_class(msg: &str) -> &'static str {
    let m = msg.to_ascii_lowercase();
    if m.contains("conflict") {
        "conflict"
    } else if m.contains("constraint validation error") || m.contains("unique") || m.contains("not null") || m.contains("null constraint") {
        "constraint"
    } else if m.contains("not found") || m.contains("does not exist") || m.contains("notfound") {
        "notfound"
    } else if m.contains("type error") || m.contains("cast") || m.contains("type mismatch") || m.contains("datatype") {
        "type"
    } else {
        "other"
    }
}

fn show_dt(d: &DataType) -> String {
    match d {
        DataType::Null => "null".into(),
        DataType::Int(v) => v.value().to_string(),
        DataType::BigInt(v) => v.value().to_string(),
        DataType::UInt(v) => v.value().to_string(),
        DataType::BigUInt(v) => v.value().to_string(),
        DataType::Blob(b) => format!("'{}'", String::from_utf8_lossy(b.data().unwrap_or(&[]))),
        other => format!("?{:?}", other),
    }
}

fn show_result(r: Result<QueryResult, String>, is_read: bool, diag: &mut Vec<String>) -> String {
    match r {
        Ok(QueryResult::Rows(rows)) => {
            let mut out: Vec<String> =
                rows.iterrows().map(|r| r.iter().map(show_dt).collect::<Vec<_>>().join(",")).collect();
            out.sort();
            format!("[{}]", out.join(";"))
        }
        Ok(QueryResult::RowsAffected(n)) => {
            if is_read { format!("?affected{}", n) } else { format!("ok{}", n) }
        }
        Ok(QueryResult::Ddl(_)) => "ddl".into(),
        Err(e) => {
            diag.push(e.chars().filter(|c| *c != '\n').take(100).collect());
            err_class(&e).to_string()
        }
    }
}

static COUNTER: AtomicU64 = AtomicU64::new(0);

fn scratch() -> std::path::PathBuf {
    let dir = std::env::temp_dir().join(format!("axv-vac-{}-{}", std::process::id(), COUNTER.fetch_add(1, Ordering::SeqCst)));
    let _ = std::fs::remove_dir_all(&dir);
    std::fs::create_dir_all(&dir).unwrap();
    dir
}

fn run_case(line: &str) -> String {
    if line.trim().starts_with("cycles ") {
        let Some(c) = parse_cycles(line) else { return "bad-op".into() };
        let dir = scratch();
        let out = run_cycles(&dir, &c);
        let _ = std::fs::remove_dir_all(&dir);
        return out;
    }
    let Some((setup, ops)) = parse_case(line) else { return "bad-op".into() };
    {
        let mut names: Vec<&str> = setup.tables.iter().map(|t| t.name.as_str()).collect();
        names.sort();
        if names.windows(2).any(|w| w[0] == w[1]) {
            return "bad-setup".into();
        }
    }
    let dir = scratch();
    let out = run_in(&dir, &setup, &ops);
    let _ = std::fs::remove_dir_all(&dir);
    out
}

fn select_all(db: &Database, setup: &Setup, diag: &mut Vec<String>) -> Vec<String> {
    setup
        .tables
        .iter()
        .map(|t| {
            let r = db.execute(&format!("SELECT * FROM {}", t.name)).map_err(|e| e.to_string());
            format!("{}={}", t.name, show_result(r, true, diag))
        })
        .collect()
}

fn phys(db: &Database, path: &std::path::Path) -> String {
    let pages = db.pager().read().total_allocated_pages();
    let bytes = std::fs::metadata(path).map(|m| m.len()).unwrap_or(0);
    format!("pages={} file={}", pages, bytes)
}

fn run_in(dir: &std::path::Path, setup: &Setup, ops: &[Op]) -> String {
    let path = dir.join("db.axm");
    let mut db = match Database::create(&path, DBConfig::default()) {
        Ok(d) => d,
        Err(e) => return format!("create-failed ## {}", e),
    };
    let mut diag: Vec<String> = Vec::new();
    for t in &setup.tables {
        if let Err(e) = db.execute(&sql_create(t)) {
            return format!("bad-setup ## {}", e);
        }
    }
    if !setup.fresh {
        let _ = db.execute("CREATE TABLE warmupzz (k BIGINT)");
    }
    for (t, vals) in &setup.rows {
        let s = Stmt::Ins { table: t.clone(), rows: vec![vals.clone()] };
        if let Err(e) = db.execute(&sql_of(&s)) {
            return format!("bad-setup ## {}", e);
        }
    }
    let mut sessions: BTreeMap<String, Session> = BTreeMap::new();
    // sessions that were open when a VACUUM ran: VACUUM aborts their transactions, so every later operation on them
    // must fail (`nosession`, whatever the error); an answer is a property failure
    let mut killed: BTreeSet<String> = BTreeSet::new();
    let mut outs: Vec<String> = Vec::new();
    for op in ops {
        let o = match op {
            Op::Begin(s) => {
                killed.remove(s);
                sessions.remove(s);
                match db.session() {
                    Ok(x) => {
                        sessions.insert(s.clone(), x);
                        "ok".to_string()
                    }
                    Err(e) => err_class(&e.to_string()).to_string(),
                }
            }
            Op::Commit(s) => match sessions.get_mut(s) {
                None => "nosession".into(),
                Some(x) => {
                    let r = x.commit_transaction();
                    let was_killed = killed.remove(s);
                    let o = match r {
                        Ok(()) => if was_killed { "PROPFAIL-killed-session-committed".to_string() } else { "ok".to_string() },
                        Err(e) => {
                            diag.push(e.to_string().chars().take(100).collect());
                            if was_killed { "nosession".to_string() } else { err_class(&e.to_string()).to_string() }
                        }
                    };
                    sessions.remove(s);
                    o
                }
            },
            Op::Rollback(s) => match sessions.get_mut(s) {
                None => "nosession".into(),
                Some(x) => {
                    let r = x.abort_transaction();
                    let was_killed = killed.remove(s);
                    let o = match r {
                        _ if was_killed => "nosession".to_string(),
                        Ok(()) => "ok".to_string(),
                        Err(e) => {
                            diag.push(e.to_string().chars().take(100).collect());
                            err_class(&e.to_string()).to_string()
                        }
                    };
                    sessions.remove(s);
                    o
                }
            },
            Op::Drop(s) => match sessions.remove(s) {
                None => "nosession".into(),
                Some(x) => {
                    drop(x);
                    if killed.remove(s) { "nosession".into() } else { "ok".into() }
                }
            },
            Op::Exec(s, st) => match sessions.get_mut(s) {
                None => "nosession".into(),
                Some(x) => {
                    let r = x.execute(&sql_of(st)).map_err(|e| e.to_string());
                    if killed.contains(s) {
                        match r {
                            Err(e) => {
                                diag.push(e.chars().filter(|c| *c != '\n').take(100).collect());
                                "nosession".to_string()
                            }
                            ok => format!("PROPFAIL-killed-session-answered({})", show_result(ok, matches!(st, Stmt::Sel { .. }), &mut diag)),
                        }
                    } else {
                        show_result(r, matches!(st, Stmt::Sel { .. }), &mut diag)
                    }
                }
            },
            Op::Auto(st) => {
                let r = db.execute(&sql_of(st)).map_err(|e| e.to_string());
                show_result(r, matches!(st, Stmt::Sel { .. }), &mut diag)
            }
            Op::Batch(sts) => {
                let sqls: Vec<String> = sts.iter().map(sql_of).collect();
                let refs: Vec<&str> = sqls.iter().map(|s| s.as_str()).collect();
                match db.execute_batch(&refs) {
                    Ok(rs) => {
                        let parts: Vec<String> = rs
                            .into_iter()
                            .zip(sts.iter())
                            .map(|(r, st)| show_result(Ok(r), matches!(st, Stmt::Sel { .. }), &mut diag))
                            .collect();
                        format!("batch({})", parts.join(" "))
                    }
                    Err(e) => {
                        diag.push(e.to_string().chars().take(100).collect());
                        format!("batch-{}", err_class(&e.to_string()))
                    }
                }
            }
            Op::Vac => match db.vacuum() {
                Ok(_) => {
                    killed.extend(sessions.keys().cloned());
                    diag.push(phys(&db, &path));
                    "vac".to_string()
                }
                Err(e) => {
                    diag.push(e.to_string().chars().take(100).collect());
                    format!("vac-{}", err_class(&e.to_string()))
                }
            },
            Op::VacChk => {
                let before = select_all(&db, setup, &mut diag);
                match db.vacuum() {
                    Ok(_) => {
                        killed.extend(sessions.keys().cloned());
                        let after = select_all(&db, setup, &mut diag);
                        diag.push(phys(&db, &path));
                        if before == after {
                            "vac(same)".to_string()
                        } else {
                            format!("PROPFAIL-vac-changed({}->{})", before.join(","), after.join(","))
                        }
                    }
                    Err(e) => {
                        diag.push(e.to_string().chars().take(100).collect());
                        format!("vac-{}", err_class(&e.to_string()))
                    }
                }
            }
            Op::Reopen => {
                sessions.clear();
                killed.clear();
                drop(db);
                match Database::open(&path, DBConfig::default()) {
                    Ok(d) => {
                        db = d;
                        "reopen".to_string()
                    }
                    Err(e) => {
                        outs.push("reopen-failed".into());
                        return format!("{} ## {}", outs.join(" "), e);
                    }
                }
            }
        };
        outs.push(o);
    }
    drop(sessions);
    let fin = select_all(&db, setup, &mut diag);
    drop(db);
    let mut line = format!("{} | {}", outs.join(" "), fin.join(" "));
    if !diag.is_empty() {
        line.push_str(" ## ");
        line.push_str(&diag.join(" // "));
    }
    line
}

/// Growth family: `rows` rows, then `cycles` times (UPDATE every row; VACUUM), sizes after every cycle.
/// `how`: auto = autocommit UPDATE; sess = UPDATE in a session that commits; batch = execute_batch of two half updates;
/// rbk = additionally a rolled-back UPDATE and a rolled-back INSERT + DELETE in every cycle.
fn run_cycles(dir: &std::path::Path, c: &Cycles) -> String {
    let path = dir.join("db.axm");
    let mut db = match Database::create(&path, DBConfig::default()) {
        Ok(d) => d,
        Err(e) => return format!("create-failed ## {}", e),
    };
    if let Err(e) = db.execute("CREATE TABLE t (k BIGINT, v INT)") {
        return format!("bad-setup ## {}", e);
    }
    let mut k = 1;
    while k <= c.rows {
        let hi = (k + 49).min(c.rows);
        let vals: Vec<String> = (k..=hi).map(|i| format!("({}, {})", i, 0)).collect();
        if let Err(e) = db.execute(&format!("INSERT INTO t VALUES {}", vals.join(", "))) {
            return format!("bad-setup ## {}", e);
        }
        k = hi + 1;
    }
    let mut sizes: Vec<(u64, u64)> = Vec::new();
    let mut diag: Vec<String> = Vec::new();
    for i in 1..=c.cycles {
        let r: Result<(), String> = (|| {
            match c.how.as_str() {
                "sess" => {
                    let mut s = db.session().map_err(|e| e.to_string())?;
                    s.execute("UPDATE t SET v = v + 1").map_err(|e| e.to_string())?;
                    s.commit_transaction().map_err(|e| e.to_string())?;
                }
                "batch" => {
                    let half = c.rows / 2;
                    let a = format!("UPDATE t SET v = v + 1 WHERE k <= {}", half);
                    let b = format!("UPDATE t SET v = v + 1 WHERE k > {}", half);
                    db.execute_batch(&[a.as_str(), b.as_str()]).map_err(|e| e.to_string())?;
                }
                _ => {
                    db.execute("UPDATE t SET v = v + 1").map_err(|e| e.to_string())?;
                }
            }
            if c.how == "rbk" {
                let mut s = db.session().map_err(|e| e.to_string())?;
                s.execute(&format!("INSERT INTO t VALUES ({}, {})", 100_000 + i, 7)).map_err(|e| e.to_string())?;
                s.abort_transaction().map_err(|e| e.to_string())?;
            }
            Ok(())
        })();
        if let Err(e) = r {
            return format!("cycle-failed {} {} ## {}", i, err_class(&e), e.chars().take(120).collect::<String>());
        }
        if let Err(e) = db.vacuum() {
            return format!("vac-failed {} {} ## {}", i, err_class(&e.to_string()), e);
        }
        let pages = db.pager().read().total_allocated_pages();
        let bytes = std::fs::metadata(&path).map(|m| m.len()).unwrap_or(0);
        sizes.push((pages, bytes));
        if c.reopen > 0 && i % c.reopen == 0 {
            drop(db);
            db = match Database::open(&path, DBConfig::default()) {
                Ok(d) => d,
                Err(e) => return format!("reopen-failed {} ## {}", i, e),
            };
        }
    }
    // content: every row updated exactly `cycles` times
    let r = db.execute("SELECT * FROM t").map_err(|e| e.to_string());
    let content = match r {
        Ok(QueryResult::Rows(rows)) => {
            let mut n = 0i64;
            let mut bad = 0i64;
            for row in rows.iterrows() {
                n += 1;
                let v = row.iter().nth(1).map(show_dt).unwrap_or_default();
                if v != c.cycles.to_string() {
                    bad += 1;
                }
            }
            format!("rows={} wrong={}", n, bad)
        }
        Ok(_) => "rows=?".to_string(),
        Err(e) => {
            diag.push(e.chars().take(100).collect());
            format!("select-{}", err_class(&e))
        }
    };
    // probe: the database is still usable
    let probe = match db.execute("INSERT INTO t VALUES (999999, 1)").and_then(|_| db.execute("DELETE FROM t WHERE k = 999999")) {
        Ok(QueryResult::RowsAffected(1)) => "probe=ok".to_string(),
        Ok(_) => "probe=?".to_string(),
        Err(e) => format!("probe-{}", err_class(&e.to_string())),
    };
    drop(db);
    diag.push(format!("sizes={}", sizes.iter().map(|(p, b)| format!("{}/{}", p, b)).collect::<Vec<_>>().join(",")));
    // bounded: from cycle 10 on nothing is larger than after cycle 3 plus a small constant (2 pages)
    let verdict = if sizes.len() >= 10 {
        let page = if sizes[2].0 > 0 { sizes[2].1 / sizes[2].0.max(1) } else { 4096 };
        let (p3, b3) = sizes[2];
        let worst = sizes[9..].iter().fold((0u64, 0u64), |a, x| (a.0.max(x.0), a.1.max(x.1)));
        if worst.0 <= p3 + 2 && worst.1 <= b3 + 2 * page.max(4096) {
            "bounded".to_string()
        } else {
            format!("PROPFAIL growth cycle3={}/{} max-after-cycle10={}/{}", p3, b3, worst.0, worst.1)
        }
    } else {
        "bounded".to_string()
    };
    format!("{} {} {} ## {}", verdict, content, probe, diag.join(" // "))
}

// ------------------------------------------------------------------------------------------------ generation

impl Engine for VacuumEngine {
    fn gen_cases(&self, _rng: &mut Rng, _tier: Tier) -> Vec<Case> {
        Vec::new()
    }
    fn exec(&mut self, line: &str) -> String {
        run_case(line)
    }
    fn timeout_ms(&self) -> u64 {
        180_000
    }
}

/// Content of `lean/AxVerif/Generated/<Engine>.lean`, if this engine extracts constants from the code.
pub fn generated() -> Option<(&'static str, String)> {
    None
}
