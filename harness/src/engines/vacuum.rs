//! Engine `vacuum` (C13): histories with VACUUM at arbitrary points (and optional reopen) through the public API
//! (`Database::create/open/execute/execute_batch/session/vacuum`) against `Model/Db.lean` + `Model/Vacuum.lean`.
//! Case syntax: see `cfg/C13.py`.  The session / statement syntax is the one of engine `hist`; the parsing and
//! canonicalisation code is a private copy (engine `hist` belongs to C03/C04 and changes independently).
use super::{Case, Engine, Tier};
use crate::rng::Rng;
use axmosdb::runtime::QueryResult;
use axmosdb::tcp::session::Session;
use axmosdb::{DBConfig, DataType, Database};
use std::collections::{BTreeMap, BTreeSet};
use std::sync::atomic::{AtomicU64, Ordering};

pub struct VacuumEngine;

// ------------------------------------------------------------------------------------------------ case syntax

#[derive(Clone, Debug, PartialEq)]
enum Val {
    Int(i64),
    Null,
    Text(String),
}

#[derive(Clone, Debug)]
struct Col {
    name: String,
    ty: String, // big | int | text
    not_null: bool,
    unique: bool,
}

#[derive(Clone, Debug)]
struct Table {
    name: String,
    cols: Vec<Col>,
}

#[derive(Clone, Debug)]
struct Pred {
    col: String,
    op: String, // eq ne lt le gt ge
    val: Val,
}

#[derive(Clone, Debug)]
enum Stmt {
    Sel { table: String, pred: Option<Pred> },
    Ins { table: String, rows: Vec<Vec<Val>> },
    Upd { table: String, col: String, add: bool, val: Val, pred: Option<Pred> },
    Del { table: String, pred: Option<Pred> },
}

#[derive(Clone, Debug)]
enum Op {
    Begin(String),
    Commit(String),
    Rollback(String),
    Drop(String),
    Exec(String, Stmt),
    Auto(Stmt),
    Batch(Vec<Stmt>),
    /// `vac`: Database::vacuum
    Vac,
    /// `vacchk`: SELECT * of every table, Database::vacuum, SELECT * of every table; the two must agree
    VacChk,
    /// `reopen`: every open session is dropped, the Database handle is dropped, Database::open
    Reopen,
    /// `db droptmp` / `s<i> droptmp`: DROP TABLE tmpzz (the table of setup token `tmp`; it is outside the model's static catalog)
    DropTmp(Option<String>),
}

#[derive(Clone, Debug)]
struct Setup {
    tables: Vec<Table>,
    rows: Vec<(String, Vec<Val>)>,
    fresh: bool,
    /// `tmp`: a table `tmpzz (k BIGINT)` with rows 1, 2 is created after the others
    tmp: bool,
}

fn parse_val(s: &str) -> Option<Val> {
    if s == "null" {
        return Some(Val::Null);
    }
    if s.len() >= 2 && s.starts_with('\'') && s.ends_with('\'') {
        let body = &s[1..s.len() - 1];
        if body.chars().all(|c| c.is_ascii_lowercase()) {
            return Some(Val::Text(body.to_string()));
        }
        return None;
    }
    let n: i64 = s.parse().ok()?;
    if n.to_string() != s || n.abs() > 1_000_000_000 {
        return None;
    }
    Some(Val::Int(n))
}

fn ident(s: &str) -> bool {
    !s.is_empty() && s.chars().all(|c| c.is_ascii_lowercase() || c.is_ascii_digit()) && s.chars().next().unwrap().is_ascii_lowercase()
}

fn parse_table(spec: &str) -> Option<Table> {
    let (name, rest) = spec.split_once('(')?;
    let rest = rest.strip_suffix(')')?;
    if !ident(name) {
        return None;
    }
    let mut cols = Vec::new();
    for c in rest.split(',') {
        let (cn, ty) = c.split_once(':')?;
        let mut ty = ty.to_string();
        let mut not_null = false;
        let mut unique = false;
        loop {
            if let Some(t) = ty.strip_suffix('!') {
                not_null = true;
                ty = t.to_string();
            } else if let Some(t) = ty.strip_suffix('*') {
                unique = true;
                ty = t.to_string();
            } else {
                break;
            }
        }
        if !ident(cn) || !matches!(ty.as_str(), "big" | "int" | "text") {
            return None;
        }
        cols.push(Col { name: cn.to_string(), ty, not_null, unique });
    }
    if cols.is_empty() {
        return None;
    }
    Some(Table { name: name.to_string(), cols })
}

fn parse_setup(s: &str) -> Option<Setup> {
    let mut st = Setup { tables: vec![], rows: vec![], fresh: false, tmp: false };
    for w in s.split_whitespace() {
        if w == "fresh" {
            st.fresh = true;
        } else if w == "tmp" {
            st.tmp = true;
        } else if let Some(t) = w.strip_prefix("tab=") {
            st.tables.push(parse_table(t)?);
        } else if let Some(r) = w.strip_prefix("row=") {
            let (t, vs) = r.split_once(':')?;
            let vals: Option<Vec<Val>> = vs.split(',').map(parse_val).collect();
            st.rows.push((t.to_string(), vals?));
        } else {
            return None;
        }
    }
    Some(st)
}

fn parse_pred(ws: &[&str]) -> Option<Option<Pred>> {
    match ws {
        [] => Some(None),
        ["where", col, op, val] => {
            if !ident(col) || !matches!(*op, "eq" | "ne" | "lt" | "le" | "gt" | "ge") {
                return None;
            }
            Some(Some(Pred { col: col.to_string(), op: op.to_string(), val: parse_val(val)? }))
        }
        _ => None,
    }
}

fn parse_stmt(ws: &[&str]) -> Option<Stmt> {
    match ws {
        ["sel", t, rest @ ..] if ident(t) => Some(Stmt::Sel { table: t.to_string(), pred: parse_pred(rest)? }),
        ["del", t, rest @ ..] if ident(t) => Some(Stmt::Del { table: t.to_string(), pred: parse_pred(rest)? }),
        ["upd", t, col, how, val, rest @ ..] if ident(t) && ident(col) && (*how == "set" || *how == "add") => Some(Stmt::Upd {
            table: t.to_string(),
            col: col.to_string(),
            add: *how == "add",
            val: parse_val(val)?,
            pred: parse_pred(rest)?,
        }),
        ["ins", t, rest @ ..] if ident(t) && !rest.is_empty() => {
            let mut rows = Vec::new();
            for r in rest.split(|w| *w == ",") {
                if r.is_empty() {
                    return None;
                }
                let vals: Option<Vec<Val>> = r.iter().map(|v| parse_val(v)).collect();
                rows.push(vals?);
            }
            Some(Stmt::Ins { table: t.to_string(), rows })
        }
        _ => None,
    }
}

fn sess_name(s: &str) -> bool {
    s.len() >= 2 && s.starts_with('s') && s[1..].chars().all(|c| c.is_ascii_digit())
}

fn parse_op(s: &str) -> Option<Op> {
    let ws: Vec<&str> = s.split_whitespace().collect();
    match ws.as_slice() {
        ["vac"] => Some(Op::Vac),
        ["vacchk"] => Some(Op::VacChk),
        ["reopen"] => Some(Op::Reopen),
        ["db", "droptmp"] => Some(Op::DropTmp(None)),
        [s, "droptmp"] if sess_name(s) => Some(Op::DropTmp(Some(s.to_string()))),
        ["db", "batch", rest @ ..] => {
            let mut stmts = Vec::new();
            for part in rest.split(|w| *w == "&") {
                stmts.push(parse_stmt(part)?);
            }
            Some(Op::Batch(stmts))
        }
        ["db", rest @ ..] => Some(Op::Auto(parse_stmt(rest)?)),
        [s, "begin"] if sess_name(s) => Some(Op::Begin(s.to_string())),
        [s, "commit"] if sess_name(s) => Some(Op::Commit(s.to_string())),
        [s, "rollback"] if sess_name(s) => Some(Op::Rollback(s.to_string())),
        [s, "drop"] if sess_name(s) => Some(Op::Drop(s.to_string())),
        [s, rest @ ..] if sess_name(s) => Some(Op::Exec(s.to_string(), parse_stmt(rest)?)),
        _ => None,
    }
}

fn parse_case(line: &str) -> Option<(Setup, Vec<Op>)> {
    let body = line.trim().strip_prefix("vac ")?;
    let (setup, ops) = body.split_once('|')?;
    let setup = parse_setup(setup)?;
    let mut out = Vec::new();
    let ops = ops.trim();
    if !ops.is_empty() {
        for o in ops.split(" ; ") {
            out.push(parse_op(o)?);
        }
    }
    Some((setup, out))
}

/// `cycles rows=<n> cycles=<c> reopen=<k> how=auto|sess|batch|rbk`
struct Cycles {
    rows: i64,
    cycles: i64,
    reopen: i64, // 0 = never, k = reopen after every k-th cycle
    how: String,
}

fn parse_cycles(line: &str) -> Option<Cycles> {
    let body = line.trim().strip_prefix("cycles ")?;
    let mut c = Cycles { rows: 0, cycles: 0, reopen: 0, how: String::new() };
    let num = |s: &str| -> Option<i64> {
        let n: i64 = s.parse().ok()?;
        if n.to_string() != s || n < 0 || n > 100_000 { None } else { Some(n) }
    };
    let ws: Vec<&str> = body.split_whitespace().collect();
    if ws.len() != 4 {
        return None;
    }
    c.rows = num(ws[0].strip_prefix("rows=")?)?;
    c.cycles = num(ws[1].strip_prefix("cycles=")?)?;
    c.reopen = num(ws[2].strip_prefix("reopen=")?)?;
    c.how = ws[3].strip_prefix("how=")?.to_string();
    if !matches!(c.how.as_str(), "auto" | "sess" | "batch" | "rbk") || c.rows < 1 || c.rows > 2000 || c.cycles < 1 || c.cycles > 400 {
        return None;
    }
    Some(c)
}

// ------------------------------------------------------------------------------------------------ SQL text

fn sql_val(v: &Val) -> String {
    match v {
        Val::Int(n) => n.to_string(),
        Val::Null => "NULL".into(),
        Val::Text(s) => format!("'{}'", s),
    }
}

fn sql_pred(p: &Option<Pred>) -> String {
    match p {
        None => String::new(),
        Some(p) => {
            let op = match p.op.as_str() {
                "eq" => "=",
                "ne" => "<>",
                "lt" => "<",
                "le" => "<=",
                "gt" => ">",
                _ => ">=",
            };
            format!(" WHERE {} {} {}", p.col, op, sql_val(&p.val))
        }
    }
}

fn sql_of(s: &Stmt) -> String {
    match s {
        Stmt::Sel { table, pred } => format!("SELECT * FROM {}{}", table, sql_pred(pred)),
        Stmt::Del { table, pred } => format!("DELETE FROM {}{}", table, sql_pred(pred)),
        Stmt::Upd { table, col, add, val, pred } => {
            if *add {
                format!("UPDATE {} SET {} = {} + {}{}", table, col, col, sql_val(val), sql_pred(pred))
            } else {
                format!("UPDATE {} SET {} = {}{}", table, col, sql_val(val), sql_pred(pred))
            }
        }
        Stmt::Ins { table, rows } => {
            let rs: Vec<String> =
                rows.iter().map(|r| format!("({})", r.iter().map(sql_val).collect::<Vec<_>>().join(", "))).collect();
            format!("INSERT INTO {} VALUES {}", table, rs.join(", "))
        }
    }
}

fn sql_create(t: &Table) -> String {
    let mut cols: Vec<String> = Vec::new();
    let mut uniq: Vec<String> = Vec::new();
    for c in &t.cols {
        let ty = match c.ty.as_str() {
            "big" => "BIGINT",
            "int" => "INT",
            _ => "TEXT",
        };
        cols.push(format!("{} {}{}", c.name, ty, if c.not_null { " NOT NULL" } else { "" }));
        if c.unique {
            uniq.push(format!("UNIQUE({})", c.name));
        }
    }
    cols.extend(uniq);
    format!("CREATE TABLE {} ({})", t.name, cols.join(", "))
}

// ------------------------------------------------------------------------------------------------ execution

/// Error classes, read off the `Display` prefix (every error crosses the task runner as a string).
fn err_class(msg: &str) -> &'static str {
    let m = msg.to_ascii_lowercase();
    if m.contains("conflict") {
        "conflict"
    } else if m.contains("constraint validation error") || m.contains("unique") || m.contains("not null") || m.contains("null constraint") {
        "constraint"
    } else if m.contains("not found") || m.contains("does not exist") || m.contains("notfound") {
        "notfound"
    } else if m.contains("type error") || m.contains("cast") || m.contains("type mismatch") || m.contains("datatype") {
        "type"
    } else {
        "other"
    }
}

fn show_dt(d: &DataType) -> String {
    match d {
        DataType::Null => "null".into(),
        DataType::Int(v) => v.value().to_string(),
        DataType::BigInt(v) => v.value().to_string(),
        DataType::UInt(v) => v.value().to_string(),
        DataType::BigUInt(v) => v.value().to_string(),
        DataType::Blob(b) => format!("'{}'", String::from_utf8_lossy(b.data().unwrap_or(&[]))),
        other => format!("?{:?}", other),
    }
}

fn show_result(r: Result<QueryResult, String>, is_read: bool, diag: &mut Vec<String>) -> String {
    match r {
        Ok(QueryResult::Rows(rows)) => {
            let mut out: Vec<String> =
                rows.iterrows().map(|r| r.iter().map(show_dt).collect::<Vec<_>>().join(",")).collect();
            out.sort();
            format!("[{}]", out.join(";"))
        }
        Ok(QueryResult::RowsAffected(n)) => {
            if is_read { format!("?affected{}", n) } else { format!("ok{}", n) }
        }
        Ok(QueryResult::Ddl(_)) => "ddl".into(),
        Err(e) => {
            diag.push(e.chars().filter(|c| *c != '\n').take(100).collect());
            err_class(&e).to_string()
        }
    }
}

static COUNTER: AtomicU64 = AtomicU64::new(0);

fn scratch() -> std::path::PathBuf {
    let dir = std::env::temp_dir().join(format!("axv-vac-{}-{}", std::process::id(), COUNTER.fetch_add(1, Ordering::SeqCst)));
    let _ = std::fs::remove_dir_all(&dir);
    std::fs::create_dir_all(&dir).unwrap();
    dir
}

fn run_case(line: &str) -> String {
    if line.trim().starts_with("cycles ") {
        let Some(c) = parse_cycles(line) else { return "bad-op".into() };
        let dir = scratch();
        let out = run_cycles(&dir, &c);
        let _ = std::fs::remove_dir_all(&dir);
        return out;
    }
    let Some((setup, ops)) = parse_case(line) else { return "bad-op".into() };
    {
        let mut names: Vec<&str> = setup.tables.iter().map(|t| t.name.as_str()).collect();
        names.sort();
        if names.windows(2).any(|w| w[0] == w[1]) || names.iter().any(|n| *n == "tmpzz" || *n == "warmupzz") {
            return "bad-setup".into();
        }
    }
    let dir = scratch();
    let out = run_in(&dir, &setup, &ops);
    let _ = std::fs::remove_dir_all(&dir);
    out
}

fn select_all(db: &Database, setup: &Setup, diag: &mut Vec<String>) -> Vec<String> {
    let mut names: Vec<&str> = setup.tables.iter().map(|t| t.name.as_str()).collect();
    if setup.tmp {
        names.push("tmpzz");
    }
    names
        .iter()
        .map(|t| {
            let r = db.execute(&format!("SELECT * FROM {}", t)).map_err(|e| e.to_string());
            format!("{}={}", t, show_result(r, true, diag))
        })
        .collect()
}

fn phys(db: &Database, path: &std::path::Path) -> String {
    let pages = db.pager().read().total_allocated_pages();
    let bytes = std::fs::metadata(path).map(|m| m.len()).unwrap_or(0);
    format!("pages={} file={}", pages, bytes)
}

fn run_in(dir: &std::path::Path, setup: &Setup, ops: &[Op]) -> String {
    let path = dir.join("db.axm");
    let mut db = match Database::create(&path, DBConfig::default()) {
        Ok(d) => d,
        Err(e) => return format!("create-failed ## {}", e),
    };
    let mut diag: Vec<String> = Vec::new();
    for t in &setup.tables {
        if let Err(e) = db.execute(&sql_create(t)) {
            return format!("bad-setup ## {}", e);
        }
    }
    if !setup.fresh {
        let _ = db.execute("CREATE TABLE warmupzz (k BIGINT)");
    }
    for (t, vals) in &setup.rows {
        let s = Stmt::Ins { table: t.clone(), rows: vec![vals.clone()] };
        if let Err(e) = db.execute(&sql_of(&s)) {
            return format!("bad-setup ## {}", e);
        }
    }
    if setup.tmp {
        for q in ["CREATE TABLE tmpzz (k BIGINT)", "INSERT INTO tmpzz VALUES (1), (2)"] {
            if let Err(e) = db.execute(q) {
                return format!("bad-setup ## {}", e);
            }
        }
    }
    let mut sessions: BTreeMap<String, Session> = BTreeMap::new();
    // sessions that were open when a VACUUM ran: VACUUM aborts their transactions, so every later operation on them
    // must fail (`nosession`, whatever the error); an answer is a property failure
    let mut killed: BTreeSet<String> = BTreeSet::new();
    let mut outs: Vec<String> = Vec::new();
    for op in ops {
        let o = match op {
            Op::Begin(s) => {
                killed.remove(s);
                sessions.remove(s);
                match db.session() {
                    Ok(x) => {
                        sessions.insert(s.clone(), x);
                        "ok".to_string()
                    }
                    Err(e) => err_class(&e.to_string()).to_string(),
                }
            }
            Op::Commit(s) => match sessions.get_mut(s) {
                None => "nosession".into(),
                Some(x) => {
                    let r = x.commit_transaction();
                    let was_killed = killed.remove(s);
                    let o = match r {
                        Ok(()) => if was_killed { "PROPFAIL-killed-session-committed".to_string() } else { "ok".to_string() },
                        Err(e) => {
                            diag.push(e.to_string().chars().take(100).collect());
                            if was_killed { "nosession".to_string() } else { err_class(&e.to_string()).to_string() }
                        }
                    };
                    sessions.remove(s);
                    o
                }
            },
            Op::Rollback(s) => match sessions.get_mut(s) {
                None => "nosession".into(),
                Some(x) => {
                    let r = x.abort_transaction();
                    let was_killed = killed.remove(s);
                    let o = match r {
                        _ if was_killed => "nosession".to_string(),
                        Ok(()) => "ok".to_string(),
                        Err(e) => {
                            diag.push(e.to_string().chars().take(100).collect());
                            err_class(&e.to_string()).to_string()
                        }
                    };
                    sessions.remove(s);
                    o
                }
            },
            Op::Drop(s) => match sessions.remove(s) {
                None => "nosession".into(),
                Some(x) => {
                    drop(x);
                    if killed.remove(s) { "nosession".into() } else { "ok".into() }
                }
            },
            Op::Exec(s, st) => match sessions.get_mut(s) {
                None => "nosession".into(),
                Some(x) => {
                    let r = x.execute(&sql_of(st)).map_err(|e| e.to_string());
                    if killed.contains(s) {
                        match r {
                            Err(e) => {
                                diag.push(e.chars().filter(|c| *c != '\n').take(100).collect());
                                "nosession".to_string()
                            }
                            ok => format!("PROPFAIL-killed-session-answered({})", show_result(ok, matches!(st, Stmt::Sel { .. }), &mut diag)),
                        }
                    } else {
                        show_result(r, matches!(st, Stmt::Sel { .. }), &mut diag)
                    }
                }
            },
            Op::Auto(st) => {
                let r = db.execute(&sql_of(st)).map_err(|e| e.to_string());
                show_result(r, matches!(st, Stmt::Sel { .. }), &mut diag)
            }
            Op::Batch(sts) => {
                let sqls: Vec<String> = sts.iter().map(sql_of).collect();
                let refs: Vec<&str> = sqls.iter().map(|s| s.as_str()).collect();
                match db.execute_batch(&refs) {
                    Ok(rs) => {
                        let parts: Vec<String> = rs
                            .into_iter()
                            .zip(sts.iter())
                            .map(|(r, st)| show_result(Ok(r), matches!(st, Stmt::Sel { .. }), &mut diag))
                            .collect();
                        format!("batch({})", parts.join(" "))
                    }
                    Err(e) => {
                        diag.push(e.to_string().chars().take(100).collect());
                        format!("batch-{}", err_class(&e.to_string()))
                    }
                }
            }
            Op::DropTmp(None) => {
                let r = db.execute("DROP TABLE tmpzz").map_err(|e| e.to_string());
                show_result(r, false, &mut diag)
            }
            Op::DropTmp(Some(s)) => match sessions.get_mut(s) {
                None => "nosession".into(),
                Some(x) => {
                    let r = x.execute("DROP TABLE tmpzz").map_err(|e| e.to_string());
                    if killed.contains(s) {
                        match r {
                            Err(_) => "nosession".to_string(),
                            ok => format!("PROPFAIL-killed-session-answered({})", show_result(ok, false, &mut diag)),
                        }
                    } else {
                        show_result(r, false, &mut diag)
                    }
                }
            },
            Op::Vac => match db.vacuum() {
                Ok(_) => {
                    killed.extend(sessions.keys().cloned());
                    diag.push(phys(&db, &path));
                    "vac".to_string()
                }
                Err(e) => {
                    diag.push(e.to_string().chars().take(100).collect());
                    format!("vac-{}", err_class(&e.to_string()))
                }
            },
            Op::VacChk => {
                let before = select_all(&db, setup, &mut diag);
                match db.vacuum() {
                    Ok(_) => {
                        killed.extend(sessions.keys().cloned());
                        let after = select_all(&db, setup, &mut diag);
                        diag.push(phys(&db, &path));
                        if before == after {
                            "vac(same)".to_string()
                        } else {
                            format!("PROPFAIL-vac-changed({}->{})", before.join(","), after.join(","))
                        }
                    }
                    Err(e) => {
                        diag.push(e.to_string().chars().take(100).collect());
                        format!("vac-{}", err_class(&e.to_string()))
                    }
                }
            }
            Op::Reopen => {
                sessions.clear();
                killed.clear();
                drop(db);
                match Database::open(&path, DBConfig::default()) {
                    Ok(d) => {
                        db = d;
                        "reopen".to_string()
                    }
                    Err(e) => {
                        outs.push("reopen-failed".into());
                        return format!("{} ## {}", outs.join(" "), e);
                    }
                }
            }
        };
        outs.push(o);
    }
    drop(sessions);
    let fin = select_all(&db, setup, &mut diag);
    drop(db);
    let mut line = format!("{} | {}", outs.join(" "), fin.join(" "));
    if !diag.is_empty() {
        line.push_str(" ## ");
        line.push_str(&diag.join(" // "));
    }
    line
}

/// Growth family: `rows` rows, then `cycles` times (UPDATE every row; VACUUM), sizes after every cycle.
/// `how`: auto = autocommit UPDATE; sess = UPDATE in a session that commits; batch = execute_batch of two half updates;
/// rbk = additionally a rolled-back UPDATE and a rolled-back INSERT + DELETE in every cycle.
fn run_cycles(dir: &std::path::Path, c: &Cycles) -> String {
    let path = dir.join("db.axm");
    let mut db = match Database::create(&path, DBConfig::default()) {
        Ok(d) => d,
        Err(e) => return format!("create-failed ## {}", e),
    };
    if let Err(e) = db.execute("CREATE TABLE t (k BIGINT, v INT)") {
        return format!("bad-setup ## {}", e);
    }
    let mut k = 1;
    while k <= c.rows {
        let hi = (k + 49).min(c.rows);
        let vals: Vec<String> = (k..=hi).map(|i| format!("({}, {})", i, 0)).collect();
        if let Err(e) = db.execute(&format!("INSERT INTO t VALUES {}", vals.join(", "))) {
            return format!("bad-setup ## {}", e);
        }
        k = hi + 1;
    }
    let mut sizes: Vec<(u64, u64)> = Vec::new();
    let mut diag: Vec<String> = Vec::new();
    for i in 1..=c.cycles {
        let r: Result<(), String> = (|| {
            match c.how.as_str() {
                "sess" => {
                    let mut s = db.session().map_err(|e| e.to_string())?;
                    s.execute("UPDATE t SET v = v + 1").map_err(|e| e.to_string())?;
                    s.commit_transaction().map_err(|e| e.to_string())?;
                }
                "batch" => {
                    let half = c.rows / 2;
                    let a = format!("UPDATE t SET v = v + 1 WHERE k <= {}", half);
                    let b = format!("UPDATE t SET v = v + 1 WHERE k > {}", half);
                    db.execute_batch(&[a.as_str(), b.as_str()]).map_err(|e| e.to_string())?;
                }
                _ => {
                    db.execute("UPDATE t SET v = v + 1").map_err(|e| e.to_string())?;
                }
            }
            if c.how == "rbk" {
                let mut s = db.session().map_err(|e| e.to_string())?;
                s.execute(&format!("INSERT INTO t VALUES ({}, {})", 100_000 + i, 7)).map_err(|e| e.to_string())?;
                s.abort_transaction().map_err(|e| e.to_string())?;
            }
            Ok(())
        })();
        if let Err(e) = r {
            return format!("cycle-failed {} {} ## {}", i, err_class(&e), e.chars().take(120).collect::<String>());
        }
        if let Err(e) = db.vacuum() {
            return format!("vac-failed {} {} ## {}", i, err_class(&e.to_string()), e);
        }
        let pages = db.pager().read().total_allocated_pages();
        let bytes = std::fs::metadata(&path).map(|m| m.len()).unwrap_or(0);
        sizes.push((pages, bytes));
        if c.reopen > 0 && i % c.reopen == 0 {
            drop(db);
            db = match Database::open(&path, DBConfig::default()) {
                Ok(d) => d,
                Err(e) => return format!("reopen-failed {} ## {}", i, e),
            };
        }
    }
    // content: every row updated exactly `cycles` times
    let r = db.execute("SELECT * FROM t").map_err(|e| e.to_string());
    let content = match r {
        Ok(QueryResult::Rows(rows)) => {
            let mut n = 0i64;
            let mut bad = 0i64;
            for row in rows.iterrows() {
                n += 1;
                let v = row.iter().nth(1).map(show_dt).unwrap_or_default();
                if v != c.cycles.to_string() {
                    bad += 1;
                }
            }
            format!("rows={} wrong={}", n, bad)
        }
        Ok(_) => "rows=?".to_string(),
        Err(e) => {
            diag.push(e.chars().take(100).collect());
            format!("select-{}", err_class(&e))
        }
    };
    // probe: the database is still usable
    let probe = match db.execute("INSERT INTO t VALUES (999999, 1)").and_then(|_| db.execute("DELETE FROM t WHERE k = 999999")) {
        Ok(QueryResult::RowsAffected(1)) => "probe=ok".to_string(),
        Ok(_) => "probe=?".to_string(),
        Err(e) => format!("probe-{}", err_class(&e.to_string())),
    };
    drop(db);
    diag.push(format!("sizes={}", sizes.iter().map(|(p, b)| format!("{}/{}", p, b)).collect::<Vec<_>>().join(",")));
    // bounded: from cycle 10 on nothing is larger than after cycle 3 plus a small constant (2 pages)
    let verdict = if sizes.len() >= 10 {
        let page = if sizes[2].0 > 0 { sizes[2].1 / sizes[2].0.max(1) } else { 4096 };
        let (p3, b3) = sizes[2];
        let worst = sizes[9..].iter().fold((0u64, 0u64), |a, x| (a.0.max(x.0), a.1.max(x.1)));
        if worst.0 <= p3 + 2 && worst.1 <= b3 + 2 * page.max(4096) {
            "bounded".to_string()
        } else {
            format!("PROPFAIL growth cycle3={}/{} max-after-cycle10={}/{}", p3, b3, worst.0, worst.1)
        }
    } else {
        "bounded".to_string()
    };
    format!("{} {} {} ## {}", verdict, content, probe, diag.join(" // "))
}

// ------------------------------------------------------------------------------------------------ generation
//
// Discipline (keeps a case out of the findings of C03/C04, which are not this property's business):
//   * initial rows have keys 1..n (value 10k); session i inserts keys 10i+j only and writes (del/upd) only rows it owns
//     (its own inserts and the initial keys dealt to it): no two open transactions write the same row;
//   * UPDATE only on table `t` (no unique index); statements that fail do so on their first row;
//   * a deleted unique key is not inserted again;
//   * DROP TABLE (of the side table `tmpzz`) only autocommit or in a session that commits right away; the family
//     `rolled_back_drop` lifts this (DROP is not transactional: finding with region attribution).
// Cases with an UPDATE that is rolled back, or read by a transaction older than it, carry `kf:update`
// (updateKeepsInserterXmin, finding of C03/C04 with exact attribution).

const T_PLAIN: &str = "tab=t(k:big,v:int)";
const T_CONS: &str = "tab=u(k:big*,v:int!)";

fn setup_line(tables: &[&str], n_init: i64, fresh: bool, tmp: bool) -> String {
    let mut s = String::new();
    for t in tables {
        if !s.is_empty() {
            s.push(' ');
        }
        s.push_str(if *t == "t" { T_PLAIN } else { T_CONS });
    }
    for t in tables {
        for k in 1..=n_init {
            s.push_str(&format!(" row={}:{},{}", t, k, 10 * k));
        }
    }
    if fresh {
        s.push_str(" fresh");
    }
    if tmp {
        s.push_str(" tmp");
    }
    s
}

fn gen_read(rng: &mut Rng, t: &str, n_init: i64) -> String {
    match rng.below(6) {
        0 | 1 | 2 => format!("sel {}", t),
        3 => format!("sel {} where k eq {}", t, rng.range(1, n_init.max(1))),
        4 => format!("sel {} where v {} {}", t, rng.pick(&["ge", "lt", "ne", "gt", "le"]), 10 * rng.range(1, 3)),
        _ => format!("sel {} where k {} {}", t, rng.pick(&["lt", "ge", "ne"]), rng.range(1, 12)),
    }
}

/// one write statement on rows the writer owns; `base` numbers its inserted keys
fn gen_write(rng: &mut Rng, t: &str, upd_ok: bool, base: i64, ctr: &mut i64, mine: &mut Vec<i64>) -> String {
    let w = rng.below(10);
    if w < 4 || mine.is_empty() {
        let nrows = if rng.chance(1, 4) { 2 } else { 1 };
        let mut parts = Vec::new();
        for _ in 0..nrows {
            let k = base + *ctr;
            *ctr += 1;
            mine.push(k);
            parts.push(format!("{} {}", k, 100 + rng.range(0, 99)));
        }
        return format!("ins {} {}", t, parts.join(" , "));
    }
    let k = *rng.pick(mine);
    if upd_ok && t == "t" && rng.chance(1, 2) {
        if rng.chance(1, 2) {
            format!("upd {} v add {} where k eq {}", t, rng.range(1, 5), k)
        } else {
            format!("upd {} v set {} where k eq {}", t, 1000 + rng.range(0, 99), k)
        }
    } else {
        mine.retain(|x| *x != k);
        format!("del {} where k eq {}", t, k)
    }
}

fn gen_end(rng: &mut Rng) -> &'static str {
    match rng.below(10) {
        0..=4 => "commit",
        5..=7 => "rollback",
        8 => "drop",
        _ => "", // left open
    }
}

fn random_interleaving(rng: &mut Rng, progs: &[Vec<String>]) -> Vec<String> {
    let mut pos = vec![0usize; progs.len()];
    let mut out = Vec::new();
    loop {
        let live: Vec<usize> = (0..progs.len()).filter(|i| pos[*i] < progs[*i].len()).collect();
        if live.is_empty() {
            return out;
        }
        let total: usize = live.iter().map(|i| progs[*i].len() - pos[*i]).sum();
        let mut x = rng.below(total as u64) as usize;
        let mut pick = live[0];
        for i in &live {
            let r = progs[*i].len() - pos[*i];
            if x < r {
                pick = *i;
                break;
            }
            x -= r;
        }
        out.push(progs[pick][pos[pick]].clone());
        pos[pick] += 1;
    }
}

fn vac_op(rng: &mut Rng) -> &'static str {
    if rng.chance(3, 4) { "vacchk" } else { "vac" }
}

/// what the history looks like to this property (syntactic)
fn analyse(line: &str, extra: &[&str]) -> Vec<String> {
    let mut tags: Vec<String> = Vec::new();
    let mut add = |t: &str| {
        if !tags.iter().any(|x| x == t) {
            tags.push(t.to_string());
        }
    };
    for e in extra {
        add(e);
    }
    let Some((setup, ops)) = parse_case(line) else {
        add("malformed");
        return tags;
    };
    if setup.fresh {
        add("fresh_db");
    }
    if setup.tables.len() > 1 {
        add("two_tables");
    }
    // per open session: has it written / updated?   after the walk: which kinds of garbage existed before some vacuum
    let mut open: BTreeMap<String, (bool, bool, bool)> = BTreeMap::new(); // name -> (wrote, updated, deleted)
    let mut garbage = false; // rolled-back write or superseded version so far
    let (mut nvac, mut nreopen) = (0, 0);
    let mut killed: BTreeSet<String> = BTreeSet::new();
    let mut upd_risky = false;
    let mut older_open_than_update = false;
    let mut nt = false;
    for op in &ops {
        match op {
            Op::Begin(s) => {
                if let Some((w, _, _)) = open.remove(s) {
                    if w {
                        garbage = true;
                        add("rolled_back_write");
                    }
                }
                killed.remove(s);
                open.insert(s.clone(), (false, false, false));
            }
            Op::Commit(s) => {
                if killed.contains(s) {
                    add("killed_commit");
                    killed.remove(s);
                } else if let Some((_, u, d)) = open.remove(s) {
                    add("commit");
                    if u || d {
                        garbage = true;
                        add("superseded_version");
                    }
                    if u && !open.is_empty() {
                        older_open_than_update = true;
                    }
                }
            }
            Op::Rollback(s) | Op::Drop(s) => {
                if killed.remove(s) {
                    add("killed_end");
                } else if let Some((w, u, d)) = open.remove(s) {
                    add(if matches!(op, Op::Rollback(_)) { "rollback" } else { "session_drop" });
                    if w {
                        garbage = true;
                        add("rolled_back_write");
                    }
                    if d {
                        add("rolled_back_delete");
                    }
                    if u {
                        add("rolled_back_update");
                        upd_risky = true;
                    }
                }
            }
            Op::Exec(s, st) => {
                if killed.contains(s) {
                    add("killed_stmt");
                } else if let Some(e) = open.get_mut(s) {
                    match st {
                        Stmt::Sel { .. } => add("sel"),
                        Stmt::Ins { rows, .. } => {
                            e.0 = true;
                            add("ins");
                            if rows.len() > 1 {
                                add("multi_row_insert");
                            }
                        }
                        Stmt::Upd { .. } => {
                            e.0 = true;
                            e.1 = true;
                            add("update");
                        }
                        Stmt::Del { .. } => {
                            e.0 = true;
                            e.2 = true;
                            add("del");
                        }
                    }
                }
            }
            Op::Auto(st) => {
                add("autocommit");
                match st {
                    Stmt::Sel { .. } => add("sel"),
                    Stmt::Ins { .. } => add("ins"),
                    Stmt::Upd { .. } => {
                        add("update");
                        garbage = true;
                        add("superseded_version");
                        if !open.is_empty() {
                            older_open_than_update = true;
                        }
                    }
                    Stmt::Del { .. } => {
                        add("del");
                        garbage = true;
                        add("superseded_version");
                    }
                }
            }
            Op::Batch(sts) => {
                add("batch");
                for st in sts {
                    match st {
                        Stmt::Upd { .. } => {
                            add("update");
                            garbage = true;
                            if !open.is_empty() {
                                older_open_than_update = true;
                            }
                        }
                        Stmt::Del { .. } => {
                            garbage = true;
                        }
                        _ => {}
                    }
                }
            }
            Op::Vac | Op::VacChk => {
                nvac += 1;
                add(if matches!(op, Op::Vac) { "vac_plain" } else { "vac_checked" });
                if open.values().any(|(w, _, _)| *w) {
                    garbage = true;
                    add("open_writer_at_vacuum");
                }
                if open.values().any(|(_, u, _)| *u) {
                    upd_risky = true;
                }
                if open.values().any(|(_, _, d)| *d) {
                    add("open_deleter_at_vacuum");
                }
                if !open.is_empty() {
                    add("open_across_vacuum");
                }
                for k in open.keys() {
                    killed.insert(k.clone());
                }
                open.clear();
                if garbage {
                    nt = true;
                }
            }
            Op::Reopen => {
                nreopen += 1;
                if open.values().any(|(w, _, _)| *w) {
                    garbage = true;
                    add("rolled_back_write");
                }
                if open.values().any(|(_, u, _)| *u) {
                    upd_risky = true;
                }
                open.clear();
                killed.clear();
            }
            Op::DropTmp(_) => add("drop_table"),
        }
    }
    add(&format!("vac{}", nvac.min(3)));
    if nreopen > 0 {
        add("reopen");
        if nvac > 0 {
            add("vacuum_and_reopen");
        }
    }
    if nt {
        add("nt");
    }
    // known-finding features
    let rbd = extra.iter().any(|e| *e == "rolled_back_drop");
    if rbd {
        add("kf:rolled_back_drop");
    } else if upd_risky || older_open_than_update {
        add("kf:update");
    } else {
        add("clean");
    }
    tags
}

fn mk(setup: &str, ops: &[String], extra: &[&str]) -> Case {
    let ops: Vec<&String> = ops.iter().filter(|o| !o.is_empty()).collect();
    let line = format!("vac {} | {}", setup, ops.iter().map(|s| s.as_str()).collect::<Vec<_>>().join(" ; "));
    let tags = analyse(&line, extra);
    Case { line, tags }
}

/// reads and probe writes after the last vacuum: fresh autocommit statements, a session opened afterwards (reading twice,
/// writing, committing or rolling back), and "the database remains usable" probes
fn tail_ops(rng: &mut Rng, t: &str, n_init: i64) -> Vec<String> {
    let mut ops = vec![format!("db {}", gen_read(rng, t, n_init))];
    if rng.chance(3, 4) {
        ops.push("s9 begin".into());
        ops.push(format!("s9 sel {}", t));
        let k = 90 + rng.range(0, 5);
        ops.push(format!("s9 ins {} {} {}", t, k, 900));
        if rng.chance(1, 2) {
            ops.push(format!("db ins {} {} {}", t, 80 + rng.range(0, 5), 800));
        }
        ops.push(format!("s9 sel {}", t));
        if rng.chance(1, 2) {
            ops.push(format!("s9 del {} where k eq {}", t, k));
        }
        ops.push(format!("s9 {}", if rng.chance(2, 3) { "commit" } else { "rollback" }));
    }
    if rng.chance(1, 2) {
        ops.push(format!("db ins {} 70 700", t));
        if t == "t" && rng.chance(1, 2) {
            ops.push("db upd t v add 1 where k eq 70".to_string());
        }
        ops.push(format!("db sel {} where k eq 70", t));
        ops.push(format!("db del {} where k eq 70", t));
    }
    if rng.chance(1, 3) {
        ops.push(vac_op(rng).to_string());
    }
    ops.push(format!("db sel {}", t));
    ops
}

/// random multi-session history with vacuums / reopens dropped in at random places
fn gen_random(rng: &mut Rng, out: &mut Vec<Case>) {
    let with_upd = rng.chance(1, 4);
    let t = if !with_upd && rng.chance(1, 3) { "u" } else { "t" };
    let n_init = rng.range(0, 3);
    let nsess = rng.range(1, 3) as usize;
    // deal the initial keys
    let mut owned: Vec<Vec<i64>> = vec![Vec::new(); nsess + 1]; // last = autocommit statements
    for k in 1..=n_init {
        let who = rng.below(nsess as u64 + 2) as usize;
        if who <= nsess {
            owned[who].push(k);
        }
    }
    let mut progs: Vec<Vec<String>> = Vec::new();
    for si in 1..=nsess {
        let mut p = vec![format!("s{} begin", si)];
        let mut ctr = 1;
        let mut mine = owned[si - 1].clone();
        for _ in 0..rng.range(1, 3) {
            if rng.chance(1, 3) {
                p.push(format!("s{} {}", si, gen_read(rng, t, n_init)));
            } else {
                p.push(format!("s{} {}", si, gen_write(rng, t, with_upd, 10 * si as i64, &mut ctr, &mut mine)));
            }
        }
        let e = gen_end(rng);
        if !e.is_empty() {
            p.push(format!("s{} {}", si, e));
        }
        progs.push(p);
    }
    // autocommit program
    {
        let mut p = Vec::new();
        let mut ctr = 1;
        let mut mine = owned[nsess].clone();
        for _ in 0..rng.range(0, 3) {
            if rng.chance(1, 4) {
                p.push(format!("db {}", gen_read(rng, t, n_init)));
            } else if rng.chance(1, 6) {
                let a = gen_write(rng, t, with_upd, 50, &mut ctr, &mut mine);
                let b = gen_write(rng, t, with_upd, 50, &mut ctr, &mut mine);
                p.push(format!("db batch {} & {}", a, b));
            } else {
                p.push(format!("db {}", gen_write(rng, t, with_upd, 50, &mut ctr, &mut mine)));
            }
        }
        progs.push(p);
    }
    // maintenance program: vacuums and reopens
    {
        let mut p = Vec::new();
        for _ in 0..rng.range(1, 3) {
            if rng.chance(1, 5) {
                p.push("reopen".to_string());
            } else {
                p.push(vac_op(rng).to_string());
            }
        }
        progs.push(p);
    }
    let mut ops = random_interleaving(rng, &progs);
    if rng.chance(2, 3) {
        ops.push(vac_op(rng).to_string());
    }
    ops.extend(tail_ops(rng, t, n_init));
    let fresh = n_init == 0 && rng.chance(1, 2);
    out.push(mk(&setup_line(&[t], n_init, fresh, false), &ops, &["random"]));
}

/// scenarios aimed at one vacuum decision each
fn gen_targeted(rng: &mut Rng, out: &mut Vec<Case>) {
    let n_init = rng.range(2, 4);
    let k = rng.range(1, n_init);
    let k2 = if k == 1 { 2 } else { k - 1 };
    let v = vac_op(rng);
    let maybe_reopen = |rng: &mut Rng| if rng.chance(1, 4) { "reopen".to_string() } else { String::new() };
    let end_rb = |rng: &mut Rng| if rng.chance(2, 3) { "rollback" } else { "drop" };
    let shape = rng.below(17);
    let mut ops: Vec<String> = Vec::new();
    let mut table = "t";
    let mut extra: Vec<&str> = vec!["targeted"];
    let mut fresh = false;
    let mut tmp = false;
    let mut tables: Vec<&str> = vec!["t"];
    match shape {
        0 | 1 => {
            // DELETE, ROLLBACK, VACUUM (the row must survive), then the row is deleted for real
            table = if rng.chance(1, 3) { "u" } else { "t" };
            tables = vec![table];
            ops.push("s1 begin".into());
            ops.push(format!("s1 del {} where k eq {}", table, k));
            if rng.chance(1, 2) {
                ops.push(format!("s1 sel {}", table));
            }
            ops.push(format!("s1 {}", end_rb(rng)));
            ops.push(maybe_reopen(rng));
            ops.push(v.into());
            ops.push(maybe_reopen(rng));
            ops.push(format!("db sel {} where k eq {}", table, k));
            ops.push(format!("db del {} where k eq {}", table, k));
            ops.push(vac_op(rng).into());
            extra.push("t_rolled_back_delete");
        }
        2 => {
            // INSERT, ROLLBACK, VACUUM; the same key is then inserted and committed
            table = if rng.chance(1, 3) { "u" } else { "t" };
            tables = vec![table];
            ops.push("s1 begin".into());
            ops.push(format!("s1 ins {} 11 110 , 12 120", table));
            ops.push(format!("s1 {}", end_rb(rng)));
            ops.push(maybe_reopen(rng));
            ops.push(v.into());
            ops.push(format!("db ins {} 11 111", table));
            ops.push(vac_op(rng).into());
            extra.push("t_rolled_back_insert");
        }
        3 => {
            // committed DELETE, VACUUM (space is freed), the key comes back
            ops.push(format!("db del t where k eq {}", k));
            ops.push(v.into());
            ops.push(maybe_reopen(rng));
            ops.push(format!("db ins t {} 555", k));
            ops.push(vac_op(rng).into());
            extra.push("t_committed_delete");
        }
        4 | 5 => {
            // superseded versions: several committed updates of one row, vacuum in between
            for _ in 0..rng.range(1, 4) {
                ops.push(format!("db upd t v add {} where k eq {}", rng.range(1, 9), k));
            }
            ops.push(v.into());
            ops.push(maybe_reopen(rng));
            ops.push("db upd t v add 1".into());
            if rng.chance(1, 2) {
                ops.push("db batch upd t v add 1 & upd t v add 1".into());
            }
            ops.push(vac_op(rng).into());
            extra.push("t_superseded");
        }
        6 => {
            // rolled-back UPDATE (kf:update: the update is not undone by ROLLBACK; VACUUM must not change what is read)
            ops.push("s1 begin".into());
            ops.push(format!("s1 upd t v set 77 where k eq {}", k));
            ops.push(format!("s1 {}", end_rb(rng)));
            ops.push("db sel t".into());
            ops.push(v.into());
            extra.push("t_rolled_back_update");
        }
        7 | 8 => {
            // a transaction older than the horizon is open (with writes) when VACUUM runs: it is aborted, its row versions
            // go, its delete marks must not take the row with them, its later statements fail
            let w = match rng.below(3) {
                0 => format!("s1 del t where k eq {}", k),
                1 => "s1 ins t 11 110".to_string(),
                _ => format!("s1 ins t 11 110 ; s1 del t where k eq {}", k),
            };
            ops.push("s1 begin".into());
            ops.push(w);
            if rng.chance(2, 3) {
                ops.push("db ins t 21 210".into()); // a younger transaction commits: s1's id is below the horizon
            }
            ops.push(v.into());
            ops.push("db sel t".into());
            ops.push("s1 sel t".into());
            ops.push("s1 ins t 12 120".into());
            ops.push(format!("s1 del t where k eq {}", k2));
            ops.push("db sel t".into());
            ops.push(format!("s1 {}", *rng.pick(&["commit", "rollback", "drop"])));
            ops.push("db sel t".into());
            if rng.chance(1, 2) {
                ops.push("s1 begin".into());
                ops.push("s1 sel t".into());
                ops.push("s1 ins t 13 130".into());
                ops.push("s1 commit".into());
            }
            ops.push(maybe_reopen(rng));
            extra.push("t_open_across");
        }
        9 => {
            // a reader is open across the vacuum while rows it sees are deleted and vacuumed away
            ops.push("s1 begin".into());
            ops.push("s1 sel t".into());
            ops.push(format!("db del t where k eq {}", k));
            ops.push("s1 sel t".into());
            ops.push(v.into());
            ops.push("s1 sel t".into());
            ops.push("s1 commit".into());
            extra.push("t_reader_across");
        }
        10 => {
            // vacuum as the very first thing, twice in a row, on an empty table
            fresh = rng.chance(1, 2);
            ops.push(v.into());
            ops.push(vac_op(rng).into());
            ops.push("db ins t 31 310".into());
            ops.push(vac_op(rng).into());
            ops.push("db del t".into());
            ops.push(vac_op(rng).into());
            ops.push(vac_op(rng).into());
            extra.push("t_empty_twice");
        }
        11 => {
            // two tables, garbage in both
            tables = vec!["t", "u"];
            ops.push("s1 begin".into());
            ops.push(format!("s1 del t where k eq {}", k));
            ops.push(format!("s1 del u where k eq {}", k2));
            ops.push("s1 ins u 11 110".into());
            ops.push(format!("s1 {}", end_rb(rng)));
            ops.push(format!("db del u where k eq {}", k));
            ops.push(v.into());
            ops.push("db sel u".into());
            extra.push("t_two_tables");
        }
        12 => {
            // DROP TABLE committed (autocommit or a session that commits at once), VACUUM, reopen
            tmp = true;
            if rng.chance(1, 2) {
                ops.push("db droptmp".into());
            } else {
                ops.push("s1 begin".into());
                ops.push("s1 droptmp".into());
                ops.push("s1 commit".into());
            }
            ops.push(v.into());
            ops.push(maybe_reopen(rng));
            ops.push("db droptmp".into());
            ops.push(vac_op(rng).into());
            extra.push("t_dropped_table");
        }
        13 => {
            // DROP TABLE rolled back (or cut off by the vacuum): DROP is not transactional — region finding
            tmp = true;
            ops.push("s1 begin".into());
            ops.push("s1 droptmp".into());
            if rng.chance(1, 2) {
                ops.push(format!("s1 {}", end_rb(rng)));
            }
            ops.push(v.into());
            ops.push("db sel t".into());
            extra.push("rolled_back_drop");
        }
        14 => {
            // many rolled-back and committed transactions, then one vacuum, then reopen, then another
            for i in 0..rng.range(3, 8) {
                ops.push("s1 begin".into());
                ops.push(format!("s1 ins t {} {}", 100 + i, i));
                if rng.chance(1, 2) {
                    ops.push(format!("s1 del t where k eq {}", k));
                }
                ops.push(format!("s1 {}", if rng.chance(1, 2) { "commit" } else { "rollback" }));
                if i == 2 {
                    ops.push(format!("db ins t {} 5", k));
                }
            }
            ops.push(v.into());
            ops.push("reopen".into());
            ops.push(vac_op(rng).into());
            extra.push("t_many_txns");
        }
        15 => {
            // a row inserted and updated inside ONE transaction that is the last to commit before VACUUM (its versions are
            // above the horizon: the delta is kept), the update changing whether v is NULL — in either direction
            let to_value = rng.chance(1, 2);
            ops.push("s1 begin".into());
            ops.push(format!("s1 ins t 11 {}", if to_value { "null" } else { "110" }));
            ops.push(format!("s1 upd t v set {} where k eq 11", if to_value { "5" } else { "null" }));
            if rng.chance(1, 2) {
                ops.push(format!("s1 upd t v set {} where k eq {}", if to_value { "null" } else { "6" }, k));
            }
            ops.push("s1 commit".into());
            ops.push(v.into());
            ops.push("db sel t".into());
            ops.push(vac_op(rng).into());
            extra.push("t_null_transition");
        }
        _ => {
            // failing statements (first-row failures) before the vacuum: their transactions are aborted ones too
            table = "u";
            tables = vec!["u"];
            ops.push(format!("db ins u {} 99", k)); // duplicate key
            ops.push("db ins u 77 null".into()); // NOT NULL
            ops.push("db batch ins u 41 410 & ins u 41 411".into()); // failing batch: the first insert is rolled back
            ops.push("s1 begin".into());
            ops.push("s1 ins u 42 420".into());
            ops.push(format!("s1 ins u {} 1", k));
            ops.push("s1 commit".into());
            ops.push(v.into());
            extra.push("t_failed_stmts");
        }
    }
    ops.extend(tail_ops(rng, table, n_init));
    out.push(mk(&setup_line(&tables, n_init, fresh, tmp), &ops, &extra));
}

fn gen_cycles(rng: &mut Rng, tier: Tier, out: &mut Vec<Case>) {
    let quick = tier == Tier::Quick;
    let rows = *rng.pick(&[1i64, 7, 50, 51, 120, 300]);
    let cycles = if quick { rng.range(12, 20) } else { rng.range(12, 60) };
    let reopen = *rng.pick(&[0i64, 0, 1, 5, 7]);
    let how = *rng.pick(&["auto", "sess", "batch", "rbk"]);
    let line = format!("cycles rows={} cycles={} reopen={} how={}", rows, cycles, reopen, how);
    let mut tags = vec!["cycles".to_string(), "nt".to_string(), format!("how_{}", how), "clean".to_string()];
    if reopen > 0 {
        tags.push("cycles_reopen".into());
    }
    tags.push(format!("rows_{}", if rows <= 7 { "small" } else if rows <= 51 { "one_or_two_pages" } else { "many_pages" }));
    out.push(Case { line, tags });
}

impl Engine for VacuumEngine {
    fn gen_cases(&self, rng: &mut Rng, tier: Tier) -> Vec<Case> {
        let quick = tier == Tier::Quick;
        let mut out = Vec::new();
        for _ in 0..(if quick { 900 } else { 9000 }) {
            gen_random(rng, &mut out);
        }
        for _ in 0..(if quick { 800 } else { 8000 }) {
            gen_targeted(rng, &mut out);
        }
        for _ in 0..(if quick { 24 } else { 200 }) {
            gen_cycles(rng, tier, &mut out);
        }
        // more than 255 updates of one row: the u8 version counter of the tuple wraps (it used to overflow: 02a6d5d)
        out.push(Case {
            line: format!("cycles rows={} cycles=260 reopen=0 how=auto", rng.range(1, 3)),
            tags: vec!["cycles".into(), "nt".into(), "cycles_over_255".into(), "clean".into()],
        });
        out
    }
    fn exec(&mut self, line: &str) -> String {
        run_case(line)
    }
    fn timeout_ms(&self) -> u64 {
        180_000
    }
}

/// Content of `lean/AxVerif/Generated/<Engine>.lean`, if this engine extracts constants from the code.
pub fn generated() -> Option<(&'static str, String)> {
    None
}
