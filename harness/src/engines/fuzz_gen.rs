//! Case generators of engine `fuzz`: one *theme* per case, so that a case carries at most one known-finding feature.
use super::*;

/// (theme, is a known-finding region).  A case is generated from exactly one theme; its tags are the theme name plus
/// measurement tags.  Themes marked `true` are the regions of `known_findings.d/C16.json`; the generator gives them
/// at most 30 % of the cases.
pub const THEMES: [(&str, bool); 35] = [
    ("valid", false),
    ("random_chars", false),
    ("lossy_bytes", false),
    ("soup", false),
    ("truncated", false),
    ("mutated", false),
    ("ddl", false),
    ("oversized", false),
    ("long_garbage", false),
    ("deep_nesting", false),
    ("many_versions", false),
    ("atomicity", false),
    ("insert_select", false),
    ("q_plain", false),
    ("q_wrong_type", false),
    ("q_null_arg", false),
    ("q_order_limit", false),
    ("q_dml", false),
    ("sess_dml", false),
    ("q_between_in", false),
    ("q_like", false),
    ("q_like_escape", false),
    ("q_func", false),
    ("q_nullif", false),
    ("q_agg", false),
    ("q_div0", false),
    ("q_overflow", false),
    // regions of known findings (known_findings.d/C16.json)
    ("ddl_alter", true),
    ("star_expr", false),
    ("sess_atomicity", true),
    ("unique_violation", true),
    ("failed_update", true),
    ("q_case", false),
    ("q_subquery", false),
    ("q_having", false),
];

const KEYWORDS: [&str; 86] = [
    "SELECT", "FROM", "WHERE", "AND", "OR", "NOT", "LIKE", "IN", "BETWEEN", "IS", "NULL", "TRUE", "FALSE", "CASE", "WHEN",
    "THEN", "ELSE", "END", "ORDER", "BY", "GROUP", "HAVING", "ASC", "DESC", "INSERT", "INTO", "VALUES", "UPDATE", "SET",
    "DELETE", "CREATE", "TABLE", "DROP", "LIMIT", "OFFSET", "JOIN", "INNER", "OUTER", "FULL", "LEFT", "RIGHT", "CROSS",
    "EXISTS", "ANY", "ALL", "SOME", "ON", "AS", "DISTINCT", "UNION", "INTERSECT", "EXCEPT", "WITH", "RECURSIVE", "PRIMARY",
    "KEY", "FOREIGN", "REFERENCES", "UNIQUE", "INDEX", "VIEW", "PROCEDURE", "FUNCTION", "TRIGGER", "DATABASE", "SCHEMA",
    "GRANT", "REVOKE", "COMMIT", "ROLLBACK", "TRANSACTION", "BEGIN", "CONSTRAINT", "DEFAULT", "CHECK", "ALTER", "ADD",
    "COLUMN", "MODIFY", "RENAME", "TO", "LOCK", "IF", "CASCADE", "COUNT", "SUM",
];
const SYMBOLS: [&str; 22] =
    ["<", ",", ".", ";", "(", ")", "=", "!=", "<>", "<", ">", "<=", ">=", "+", "-", "/", "%", "||", "!", "|", "--", "\""];
const TYPE_NAMES: [&str; 11] = ["INT", "INTEGER", "BIGINT", "UINT", "BIGUINT", "FLOAT", "DOUBLE", "TEXT", "BOOLEAN", "BOOL", "BLOB"];
const FUNCS: [&str; 14] =
    ["LENGTH", "UPPER", "LOWER", "CAST", "LTRIM", "RTRIM", "CONCAT", "ABS", "ROUND", "CEIL", "FLOOR", "SQRT", "COALESCE", "NULLIF"];
const AGGS: [&str; 5] = ["COUNT", "SUM", "MIN", "MAX", "AVG"];
const UNKNOWN_NAMES: [&str; 6] = ["nosuch", "t9", "nt", "tmp", "zz", "id2"];

fn gen_schema(r: &mut Rng) -> Vec<Table> {
    let nt = 1 + r.below(3) as usize;
    let mut out = Vec::new();
    for i in 0..nt {
        let nc = 1 + r.below(5) as usize;
        let mut cols = vec![("id".to_string(), if r.chance(1, 8) { 'i' } else { 'I' })];
        let tys = ['i', 'I', 'u', 'U', 'f', 'd', 't', 'b', 'i', 't', 'd'];
        for j in 0..nc {
            cols.push((["a", "b", "c", "d", "e"][j].to_string(), *r.pick(&tys)));
        }
        out.push(Table { name: format!("t{}", i + 1), cols });
    }
    out
}

// ------------------------------------------------------------------------------------------------ SQL text pieces

fn any_table<'a>(r: &mut Rng, s: &'a [Table]) -> &'a Table {
    &s[r.below(s.len() as u64) as usize]
}
fn any_col<'a>(r: &mut Rng, t: &'a Table) -> &'a (String, char) {
    &t.cols[r.below(t.cols.len() as u64) as usize]
}
fn col_of<'a>(r: &mut Rng, t: &'a Table, tys: &[char]) -> Option<&'a (String, char)> {
    let cs: Vec<&(String, char)> = t.cols.iter().filter(|c| tys.contains(&c.1)).collect();
    if cs.is_empty() { None } else { Some(cs[r.below(cs.len() as u64) as usize]) }
}
fn sql_lit(r: &mut Rng, ty: char) -> String {
    match ty {
        'i' | 'I' => r.range(-50, 50).to_string(),
        'u' | 'U' => r.range(0, 100).to_string(),
        'f' | 'd' => format!("{}.{}", r.range(0, 40), r.range(0, 99)),
        't' => format!("'{}'", ["x", "r1c2", "", "hello world", "it''s", "%r%", "_"][r.below(7) as usize]),
        _ => if r.chance(1, 2) { "TRUE" } else { "FALSE" }.to_string(),
    }
}
fn row_sql(r: &mut Rng, t: &Table, id: i64) -> String {
    let vals: Vec<String> =
        t.cols.iter().enumerate().map(|(i, (_, c))| if i == 0 { id.to_string() } else { sql_lit(r, *c) }).collect();
    vals.join(", ")
}

/// a valid statement over the schema (what an application would send)
fn valid_stmt(r: &mut Rng, s: &[Table]) -> String {
    let t = any_table(r, s);
    let c = any_col(r, t).clone();
    let c2 = any_col(r, t).clone();
    let cmp = ["=", "!=", "<", "<=", ">", ">="][r.below(6) as usize];
    match r.below(16) {
        0 => format!("SELECT * FROM {}", t.name),
        1 => format!("SELECT {}, {} FROM {}", c.0, c2.0, t.name),
        2 => format!("SELECT * FROM {} WHERE {} {} {}", t.name, c.0, cmp, sql_lit(r, c.1)),
        3 => format!("SELECT {} FROM {} WHERE id {} {} ORDER BY {}", c.0, t.name, cmp, r.range(0, 5), c2.0),
        4 => format!("SELECT * FROM {} ORDER BY id DESC LIMIT {}", t.name, r.range(0, 5)),
        5 => {
            let id = r.range(4, 60);
            format!("INSERT INTO {} VALUES ({})", t.name, row_sql(r, t, id))
        }
        6 => format!("UPDATE {} SET {} = {} WHERE id = {}", t.name, c.0, sql_lit(r, c.1), r.range(1, 4)),
        7 => format!("DELETE FROM {} WHERE id = {}", t.name, r.range(1, 6)),
        8 => format!("SELECT COUNT(*) FROM {}", t.name),
        9 => format!("SELECT * FROM {} WHERE {} IS NULL", t.name, c.0),
        10 => format!("SELECT DISTINCT {} FROM {}", c.0, t.name),
        11 => format!("SELECT * FROM {} WHERE id = {} AND {} {} {}", t.name, r.range(1, 4), c.0, cmp, sql_lit(r, c.1)),
        12 => format!("SELECT * FROM {} WHERE id = {} OR id = {}", t.name, r.range(1, 4), r.range(1, 4)),
        13 => {
            let t2 = any_table(r, s);
            format!("SELECT * FROM {} JOIN {} ON {}.id = {}.id", t.name, t2.name, t.name, t2.name)
        }
        14 => format!("SELECT {} FROM {} x WHERE x.id > {}", c.0, t.name, r.range(0, 3)),
        _ => {
            let id = r.range(60, 99);
            format!("INSERT INTO {} ({}) VALUES ({})", t.name, t.cols.iter().map(|c| c.0.clone()).collect::<Vec<_>>().join(", "), row_sql(r, t, id))
        }
    }
}

fn ddl_stmt(r: &mut Rng, s: &[Table]) -> String {
    let t = any_table(r, s);
    let newt = ["t9", "nt", "tmp"][r.below(3) as usize];
    let ty = *r.pick(&TYPE_NAMES);
    let ty2 = *r.pick(&TYPE_NAMES);
    match r.below(11) {
        0 => format!("CREATE TABLE {newt} (id BIGINT, v {ty})"),
        1 => format!("CREATE TABLE IF NOT EXISTS {newt} (id BIGINT, v {ty} NOT NULL, w {ty2} DEFAULT {})", r.range(0, 9)),
        2 => format!("CREATE TABLE {newt} (id BIGINT, v {ty}, UNIQUE(v))"),
        3 => format!("CREATE TABLE {newt} (id BIGINT, v {ty}, PRIMARY KEY (id))"),
        4 => format!("DROP TABLE {newt}"),
        5 => format!("DROP TABLE IF EXISTS {newt}"),
        6 => format!("CREATE TABLE {} (id BIGINT)", t.name),
        7 => format!("INSERT INTO {newt} VALUES ({}, {})", r.range(1, 9), r.range(1, 9)),
        8 => format!("CREATE TABLE {newt} (id BIGINT, v {ty}, FOREIGN KEY (v) REFERENCES {} (id))", t.name),
        9 => format!("DROP TABLE {}", t.name),
        _ => format!("SELECT * FROM {newt}"),
    }
}

/// ALTER TABLE and CREATE INDEX on populated tables (region of known findings)
fn alter_stmt(r: &mut Rng, s: &[Table]) -> String {
    let t = any_table(r, s);
    let c = any_col(r, t).clone();
    let ty = *r.pick(&TYPE_NAMES);
    match r.below(7) {
        0 => format!("CREATE UNIQUE INDEX ix_{}_{} ON {} ({})", t.name, c.0, t.name, c.0),
        1 => format!("ALTER TABLE {} ADD COLUMN z{} {ty}", t.name, r.range(0, 3)),
        2 => format!("ALTER TABLE {} DROP COLUMN {}", t.name, c.0),
        3 => format!("ALTER TABLE {} ALTER COLUMN {} SET NOT NULL", t.name, c.0),
        4 => format!("ALTER TABLE {} ALTER COLUMN {} SET DEFAULT {}", t.name, c.0, sql_lit(r, c.1)),
        5 => format!("ALTER TABLE {} ADD CONSTRAINT k UNIQUE ({})", t.name, c.0),
        _ => format!("ALTER TABLE {} ALTER COLUMN {} DROP NOT NULL", t.name, c.0),
    }
}

fn random_chars(r: &mut Rng) -> String {
    let n = match r.below(6) {
        0 => 0,
        1 => 1 + r.below(3) as usize,
        _ => 1 + r.below(200) as usize,
    };
    let mut s = String::new();
    for _ in 0..n {
        let c = match r.below(10) {
            0..=4 => char::from(32 + r.below(95) as u8),
            5 => *r.pick(&['\'', '"', '(', ')', ';', '-', '|', '\n', '\t', '\0', '\\', '%', '_', '.', ',']),
            6 => char::from_u32(r.below(0x800) as u32).unwrap_or('?'),
            7 => char::from_u32(0x4e00 + r.below(0x1000) as u32).unwrap_or('?'),
            8 => char::from_u32(0x1f300 + r.below(0x300) as u32).unwrap_or('?'),
            _ => char::from_u32(r.below(0x110000) as u32).unwrap_or('\u{fffd}'),
        };
        s.push(c);
    }
    s
}

fn soup_token(r: &mut Rng, s: &[Table]) -> String {
    match r.below(12) {
        0..=3 => r.pick(&KEYWORDS).to_string(),
        4..=5 => r.pick(&SYMBOLS).to_string(),
        6 => any_table(r, s).name.clone(),
        7 => {
            let t = any_table(r, s);
            any_col(r, t).0.clone()
        }
        8 => r.pick(&UNKNOWN_NAMES).to_string(),
        9 => match r.below(5) {
            0 => "0".into(),
            1 => r.range(-3, 1000).to_string(),
            2 => format!("{}.{}", r.below(10), r.below(1000)),
            3 => "99999999999999999999999".into(),
            _ => "1.2.3".into(),
        },
        10 => match r.below(4) {
            0 => "''".into(),
            1 => "'abc'".into(),
            2 => "'it''s'".into(),
            _ => "'unterminated".into(),
        },
        _ => if r.chance(1, 2) { r.pick(&FUNCS).to_string() } else { r.pick(&TYPE_NAMES).to_string() },
    }
}

fn soup(r: &mut Rng, s: &[Table]) -> String {
    // half of the soups start like a statement so that they get past the first token
    let mut toks: Vec<String> = Vec::new();
    if r.chance(1, 2) {
        toks.push(["SELECT", "INSERT INTO", "UPDATE", "DELETE FROM", "CREATE TABLE", "DROP TABLE", "ALTER TABLE", "WITH", "CREATE UNIQUE INDEX"][r.below(9) as usize].to_string());
    }
    let n = 1 + r.below(40);
    for _ in 0..n {
        toks.push(soup_token(r, s));
    }
    toks.join(if r.chance(1, 10) { "" } else { " " })
}

fn mutate(r: &mut Rng, base: &str, s: &[Table]) -> String {
    let mut cs: Vec<char> = base.chars().collect();
    let k = 1 + r.below(4);
    for _ in 0..k {
        if cs.is_empty() {
            break;
        }
        let i = r.below(cs.len() as u64) as usize;
        match r.below(9) {
            0 => {
                cs.remove(i);
            }
            1 => cs.insert(i, *r.pick(&['(', ')', '\'', ',', ' ', '*', '-', '=', ';', '.', '"'])),
            2 => cs[i] = char::from(32 + r.below(95) as u8),
            3 => {
                let j = r.below(cs.len() as u64) as usize;
                cs.swap(i, j);
            }
            4 => {
                // duplicate a span
                let j = (i + 1 + r.below(10) as usize).min(cs.len());
                let span: Vec<char> = cs[i..j].to_vec();
                for (o, c) in span.into_iter().enumerate() {
                    cs.insert(j + o, c);
                }
            }
            5 => {
                // delete a span
                let j = (i + 1 + r.below(10) as usize).min(cs.len());
                cs.drain(i..j);
            }
            6 => {
                // replace a word by a soup token
                let mut ws: Vec<String> = cs.iter().collect::<String>().split(' ').map(|x| x.to_string()).collect();
                let w = r.below(ws.len() as u64) as usize;
                ws[w] = soup_token(r, s);
                cs = ws.join(" ").chars().collect();
            }
            7 => {
                // swap two words
                let mut ws: Vec<String> = cs.iter().collect::<String>().split(' ').map(|x| x.to_string()).collect();
                let a = r.below(ws.len() as u64) as usize;
                let b = r.below(ws.len() as u64) as usize;
                ws.swap(a, b);
                cs = ws.join(" ").chars().collect();
            }
            _ => {
                // drop a word
                let mut ws: Vec<String> = cs.iter().collect::<String>().split(' ').map(|x| x.to_string()).collect();
                let w = r.below(ws.len() as u64) as usize;
                ws.remove(w);
                cs = ws.join(" ").chars().collect();
            }
        }
    }
    cs.into_iter().collect()
}

fn deep(r: &mut Rng, s: &[Table], tags: &mut Vec<String>) -> String {
    let t = any_table(r, s);
    let d = [5usize, 20, 60, 150, 400, 1000, 2000][r.below(7) as usize];
    tags.push(format!("depth{}", if d <= 60 { "<=60" } else if d <= 400 { "<=400" } else { ">400" }));
    let kind = r.below(12);
    let (name, sql) = match kind {
        0 => ("deep_paren", format!("SELECT {}1{} FROM {}", "(".repeat(d), ")".repeat(d), t.name)),
        1 => ("deep_paren_where", format!("SELECT * FROM {} WHERE {}id = 1{}", t.name, "(".repeat(d), ")".repeat(d))),
        2 => ("deep_neg", format!("SELECT {}1{} FROM {}", "-(".repeat(d), ")".repeat(d), t.name)),
        3 => ("deep_not", format!("SELECT * FROM {} WHERE {}id = 1", t.name, "NOT ".repeat(d))),
        4 => ("deep_right", format!("SELECT {}1{} FROM {}", "1+(".repeat(d), ")".repeat(d), t.name)),
        5 => ("deep_chain", format!("SELECT 1{} FROM {}", "+1".repeat(d), t.name)),
        6 => ("deep_and", format!("SELECT * FROM {} WHERE id = 1{}", t.name, " AND id = 1".repeat(d))),
        7 => ("deep_func", format!("SELECT {}id{} FROM {}", "ABS(".repeat(d), ")".repeat(d), t.name)),
        8 => ("deep_or", format!("SELECT * FROM {} WHERE id = 1{}", t.name, " OR id = 2".repeat(d))),
        9 => ("deep_from", format!("SELECT * FROM {}{}{}", "(SELECT * FROM ".repeat(d), t.name, ") q".repeat(d))),
        10 => ("deep_unclosed", format!("SELECT {}1 FROM {}", "(".repeat(d), t.name)),
        _ => ("wide_in", format!("SELECT * FROM {} WHERE id IN ({}1)", t.name, "1, ".repeat(d * 5))),
    };
    tags.push(name.to_string());
    sql
}

fn long_garbage(r: &mut Rng, tags: &mut Vec<String>) -> String {
    let n = [100usize, 2000, 20000, 200000, 600000][r.below(5) as usize];
    tags.push(format!("len{n}"));
    match r.below(7) {
        0 => "#".repeat(n),
        1 => "|".repeat(n),
        2 => "--\n".repeat(n / 3),
        3 => format!("SELECT {} 1", "@".repeat(n)),
        4 => format!("SELECT '{}", "a".repeat(n)),
        5 => format!("SELECT \"{}", "b".repeat(n)),
        _ => format!("SELECT {}", "1".repeat(n)),
    }
}

fn oversized(r: &mut Rng, s: &[Table], tags: &mut Vec<String>) -> String {
    let t = any_table(r, s);
    let c = any_col(r, t).clone();
    let big = ["2147483647", "2147483648", "-2147483649", "4294967296", "9223372036854775807", "9223372036854775808", "18446744073709551616", "-9223372036854775809", "99999999999999999999999999999999999999", "340282366920938463463374607431768211456.0", "0.000000000000000000000000000000000000000000001", &"9".repeat(400)];
    let b = r.pick(&big).to_string();
    let n = [300usize, 5000, 70000, 300000][r.below(4) as usize];
    match r.below(8) {
        0 => {
            tags.push("big_int_insert".into());
            let vals: Vec<String> = t.cols.iter().enumerate().map(|(i, (_, ty))| if i == 0 { r.range(100, 200).to_string() } else if *ty == 't' || *ty == 'b' { sql_lit(r, *ty) } else { b.clone() }).collect();
            format!("INSERT INTO {} VALUES ({})", t.name, vals.join(", "))
        }
        1 => {
            tags.push("big_id_insert".into());
            let vals: Vec<String> = t.cols.iter().enumerate().map(|(i, (_, ty))| if i == 0 { b.clone() } else { sql_lit(r, *ty) }).collect();
            format!("INSERT INTO {} VALUES ({})", t.name, vals.join(", "))
        }
        2 => {
            tags.push("big_int_cmp".into());
            format!("SELECT * FROM {} WHERE {} = {}", t.name, c.0, b)
        }
        3 => {
            tags.push("big_int_update".into());
            format!("UPDATE {} SET {} = {} WHERE id = 1", t.name, c.0, b)
        }
        4 => {
            tags.push(format!("big_text{n}"));
            let vals: Vec<String> = t.cols.iter().enumerate().map(|(i, (_, ty))| if i == 0 { r.range(200, 300).to_string() } else if *ty == 't' { format!("'{}'", "x".repeat(n)) } else { sql_lit(r, *ty) }).collect();
            format!("INSERT INTO {} VALUES ({})", t.name, vals.join(", "))
        }
        5 => {
            tags.push(format!("big_text_cmp{n}"));
            format!("SELECT * FROM {} WHERE {} = '{}'", t.name, c.0, "y".repeat(n))
        }
        6 => {
            tags.push("big_limit".into());
            format!("SELECT * FROM {} LIMIT {} OFFSET {}", t.name, b, b)
        }
        _ => {
            tags.push(format!("long_ident{n}"));
            format!("SELECT {} FROM {}", "z".repeat(n), t.name)
        }
    }
}

// ------------------------------------------------------------------------------------------------ grammar statements

fn lit_e(r: &mut Rng, ty: char) -> E {
    match ty {
        'i' | 'I' => E::Int(r.range(-40, 40)),
        'u' | 'U' => E::Int(r.range(0, 90)),
        'f' | 'd' => E::Dbl(r.range(-20, 60)),
        't' => E::Str([&b"x"[..], b"r1c2", b"", b"a b", b"%r%", b"it's"][r.below(6) as usize].to_vec()),
        _ => E::Bool(r.chance(1, 2)),
    }
}
fn b(e: E) -> Box<E> {
    Box::new(e)
}
fn cmp_op(r: &mut Rng) -> &'static str {
    ["eq", "ne", "lt", "le", "gt", "ge"][r.below(6) as usize]
}
fn plain_where_e(r: &mut Rng, t: &Table) -> Option<E> {
    let c = col_of(r, t, &['i', 'I', 't'])?;
    let lit = if c.1 == 't' { lit_e(r, 't') } else { E::Int(r.range(-5, 45)) };
    Some(E::Bin(cmp_op(r), b(E::Col(c.0.clone())), b(lit)))
}
fn sel(t: &Table, items: Vec<E>, wh: Option<E>) -> Q {
    Q::Sel { tbl: t.name.clone(), items, wh, group: None, having: None, order: None, limit: None }
}
fn plain_q(r: &mut Rng, s: &[Table]) -> Q {
    let t = any_table(r, s);
    let items: Vec<E> = (0..1 + r.below(3)).map(|_| if r.chance(1, 6) { lit_e(r, 'i') } else { E::Col(any_col(r, t).0.clone()) }).collect();
    let wh = if r.chance(1, 2) { plain_where_e(r, t) } else { None };
    match r.below(14) {
        0..=5 => sel(t, items, wh),
        6 => Q::Sel { tbl: r.pick(&UNKNOWN_NAMES).to_string(), items, wh: None, group: None, having: None, order: None, limit: None },
        7 => sel(t, vec![E::Col(r.pick(&UNKNOWN_NAMES).to_string())], wh),
        8 => sel(t, items, Some(E::Bin("eq", b(E::Col(r.pick(&UNKNOWN_NAMES).to_string())), b(E::Int(1))))),
        9 => Q::Ins { tbl: t.name.clone(), vals: (0..t.cols.len() + 1 + r.below(2) as usize).map(|_| E::Int(r.range(100, 200))).collect() },
        10 => Q::Ins { tbl: r.pick(&UNKNOWN_NAMES).to_string(), vals: vec![E::Int(1)] },
        11 => Q::Upd { tbl: t.name.clone(), col: r.pick(&UNKNOWN_NAMES).to_string(), val: E::Int(1), wh: None },
        12 => Q::Del { tbl: r.pick(&UNKNOWN_NAMES).to_string(), wh: None },
        _ => Q::Ins { tbl: t.name.clone(), vals: t.cols.iter().enumerate().map(|(i, c)| if i == 0 { E::Int(r.range(100, 160)) } else { lit_e(r, c.1) }).collect() },
    }
}

/// an integer-valued expression over `t` (columns, literals, + - *)
fn int_e(r: &mut Rng, t: &Table, depth: u32) -> E {
    if depth == 0 || r.chance(1, 3) {
        return match col_of(r, t, &['i', 'I']) {
            Some(c) if r.chance(2, 3) => E::Col(c.0.clone()),
            _ => E::Int(r.range(-9, 30)),
        };
    }
    E::Bin(["add", "sub", "mul"][r.below(3) as usize], b(int_e(r, t, depth - 1)), b(int_e(r, t, depth - 1)))
}

fn themed_q(theme: &str, r: &mut Rng, s: &[Table], tags: &mut Vec<String>) -> Q {
    let t = any_table(r, s);
    let anyc = any_col(r, t).clone();
    let mut tag = |x: &str| {
        if !tags.iter().any(|y| y == x) {
            tags.push(x.to_string())
        }
    };
    match theme {
        "q_wrong_type" => {
            let other = |r: &mut Rng, ty: char| -> E {
                match ty {
                    't' => if r.chance(1, 2) { E::Int(r.range(0, 9)) } else { E::Bool(true) },
                    'b' => if r.chance(1, 2) { E::Int(1) } else { E::Str(b"x".to_vec()) },
                    _ => if r.chance(1, 2) { E::Str(b"abc".to_vec()) } else { E::Bool(false) },
                }
            };
            match r.below(6) {
                0 => { tag("wt_cmp"); sel(t, vec![E::Col(anyc.0.clone())], Some(E::Bin(cmp_op(r), b(E::Col(anyc.0.clone())), b(other(r, anyc.1))))) }
                1 => { tag("wt_arith"); sel(t, vec![E::Bin(["add", "sub", "mul", "cat"][r.below(4) as usize], b(E::Col(anyc.0.clone())), b(other(r, anyc.1)))], None) }
                2 => { tag("wt_insert"); Q::Ins { tbl: t.name.clone(), vals: t.cols.iter().enumerate().map(|(i, c)| if i == 0 { E::Int(r.range(100, 160)) } else { other(r, c.1) }).collect() } }
                3 => { tag("wt_update"); Q::Upd { tbl: t.name.clone(), col: anyc.0.clone(), val: other(r, anyc.1), wh: None } }
                4 => { tag("wt_where_nonbool"); sel(t, vec![E::Col(anyc.0.clone())], Some(E::Col(anyc.0.clone()))) }
                _ => { tag("wt_logic"); sel(t, vec![E::Bin(["and", "or"][r.below(2) as usize], b(E::Col(anyc.0.clone())), b(other(r, anyc.1)))], None) }
            }
        }
        "q_null_arg" => match r.below(8) {
            0 => { tag("null_arith"); sel(t, vec![E::Bin(["add", "sub", "mul", "cat"][r.below(4) as usize], b(E::Col(anyc.0.clone())), b(E::Null))], None) }
            1 => { tag("null_cmp"); sel(t, vec![E::Col(anyc.0.clone())], Some(E::Bin(cmp_op(r), b(E::Col(anyc.0.clone())), b(E::Null)))) }
            2 => { tag("null_insert"); Q::Ins { tbl: t.name.clone(), vals: t.cols.iter().enumerate().map(|(i, c)| if i == 0 { E::Int(r.range(100, 160)) } else if r.chance(1, 2) { E::Null } else { lit_e(r, c.1) }).collect() } }
            3 => { tag("null_key_insert"); Q::Ins { tbl: t.name.clone(), vals: t.cols.iter().enumerate().map(|(i, c)| if i == 0 { E::Null } else { lit_e(r, c.1) }).collect() } }
            4 => { tag("null_update"); Q::Upd { tbl: t.name.clone(), col: anyc.0.clone(), val: E::Null, wh: plain_where_e(r, t) } }
            5 => { tag("null_is"); sel(t, vec![E::Un(["isnull", "notnull"][r.below(2) as usize], b(if r.chance(1, 2) { E::Null } else { E::Col(anyc.0.clone()) }))], None) }
            6 => { tag("null_logic"); sel(t, vec![E::Col(anyc.0.clone())], Some(E::Bin(["and", "or"][r.below(2) as usize], b(E::Null), b(E::Bool(r.chance(1, 2)))))) }
            _ => { tag("null_select"); sel(t, vec![E::Null, E::Un("neg", b(E::Null)), E::Un("not", b(E::Null))], None) }
        },
        "q_order_limit" => {
            let mut q = plain_q_sel(r, t);
            if let Q::Sel { order, limit, .. } = &mut q {
                *order = Some(if r.chance(1, 8) { "nosuch".into() } else { any_col(r, t).0.clone() });
                if r.chance(1, 2) {
                    *limit = Some(r.below(6) as u32);
                }
            }
            tag("order");
            q
        }
        "q_dml" => match r.below(7) {
            0 => { tag("dup_key"); Q::Ins { tbl: t.name.clone(), vals: t.cols.iter().enumerate().map(|(i, c)| if i == 0 { E::Int(r.range(1, 3)) } else { lit_e(r, c.1) }).collect() } }
            1 => { tag("upd_key"); Q::Upd { tbl: t.name.clone(), col: "id".into(), val: E::Int(r.range(1, 9)), wh: plain_where_e(r, t) } }
            2 => { tag("upd_all"); Q::Upd { tbl: t.name.clone(), col: anyc.0.clone(), val: lit_e(r, anyc.1), wh: None } }
            3 => { tag("upd_expr"); match col_of(r, t, &['i', 'I']) { Some(c) => Q::Upd { tbl: t.name.clone(), col: c.0.clone(), val: E::Bin("add", b(E::Col(c.0.clone())), b(E::Int(1))), wh: plain_where_e(r, t) }, None => plain_q(r, s) } }
            4 => { tag("del_all"); Q::Del { tbl: t.name.clone(), wh: None } }
            5 => { tag("del_where"); Q::Del { tbl: t.name.clone(), wh: plain_where_e(r, t) } }
            _ => { tag("ins_ok"); Q::Ins { tbl: t.name.clone(), vals: t.cols.iter().enumerate().map(|(i, c)| if i == 0 { E::Int(r.range(100, 400)) } else { lit_e(r, c.1) }).collect() } }
        },
        "q_between_in" => {
            let c = col_of(r, t, &['i', 'I', 'd', 't']).cloned().unwrap_or(anyc.clone());
            match r.below(5) {
                0 => { tag("between"); sel(t, vec![E::Col(c.0.clone())], Some(E::Between(r.chance(1, 3), b(E::Col(c.0.clone())), b(lit_e(r, c.1)), b(lit_e(r, c.1))))) }
                1 => { tag("inlist"); sel(t, vec![E::Col(c.0.clone())], Some(E::In(r.chance(1, 3), b(E::Col(c.0.clone())), (0..1 + r.below(5)).map(|_| lit_e(r, c.1)).collect()))) }
                2 => { tag("inlist_null"); sel(t, vec![E::Col(c.0.clone())], Some(E::In(r.chance(1, 3), b(E::Col(c.0.clone())), vec![E::Null, lit_e(r, c.1)]))) }
                3 => { tag("between_null"); sel(t, vec![E::Col(c.0.clone())], Some(E::Between(false, b(E::Col(c.0.clone())), b(E::Null), b(lit_e(r, c.1))))) }
                _ => { tag("in_select_item"); sel(t, vec![E::In(false, b(E::Col(c.0.clone())), vec![lit_e(r, c.1), lit_e(r, 't')])], None) }
            }
        }
        "q_like" => {
            let c = col_of(r, t, &['t']).cloned().unwrap_or(anyc.clone());
            let pat = [&b"%"[..], b"r%", b"%c_", b"", b"_", b"%%%", b"r1c1", b"[", b"\\", b"(", b".*"][r.below(11) as usize].to_vec();
            match r.below(4) {
                0 => { tag("like"); sel(t, vec![E::Col(c.0.clone())], Some(E::Bin(["like", "nlike"][r.below(2) as usize], b(E::Col(c.0.clone())), b(E::Str(pat))))) }
                1 => { tag("like_null"); sel(t, vec![E::Bin("like", b(E::Col(c.0.clone())), b(E::Null))], None) }
                2 => { tag("like_int"); sel(t, vec![E::Bin("like", b(E::Col(c.0.clone())), b(E::Int(1)))], None) }
                _ => { tag("like_item"); sel(t, vec![E::Bin("like", b(E::Null), b(E::Str(pat)))], None) }
            }
        }
        "q_like_escape" => {
            // the pattern shapes of C05's LIKE family (wildcards, escapes — often after a wildcard —, subjects that match or
            // nearly match): a matcher that loses track while backtracking answers wrongly (C05) or never returns, which
            // the pool's time-out reports as `hang`
            use crate::engines::sql::{like_pattern, like_pattern_bytes, like_subject, like_subject_for, like_tags};
            let items = like_pattern(r);
            let trailing = r.chance(1, 15);
            for x in like_tags(&items, trailing) {
                tag(x);
            }
            let subject = match (r.below(3), col_of(r, t, &['t'])) {
                (0, Some(c)) => E::Col(c.0.clone()),
                (1, _) => E::Str(like_subject(r)),
                _ => E::Str(like_subject_for(r, &items, trailing)),
            };
            let e = E::Bin(["like", "nlike"][r.below(2) as usize], b(subject), b(E::Str(like_pattern_bytes(&items, trailing))));
            match r.below(6) {
                0 | 1 => { tag("like_where"); sel(t, vec![E::Col(anyc.0.clone())], Some(e)) }
                2 => { tag("like_item"); sel(t, vec![e], None) }
                3 => { tag("like_case"); sel(t, vec![E::Case(vec![(e, lit_e(r, 'i'))], if r.chance(1, 2) { Some(b(lit_e(r, 'i'))) } else { None })], None) }
                4 => { tag("like_delete"); Q::Del { tbl: t.name.clone(), wh: Some(e) } }
                _ => { tag("like_update"); Q::Upd { tbl: t.name.clone(), col: anyc.0.clone(), val: lit_e(r, anyc.1), wh: Some(e) } }
            }
        }
        "q_func" | "q_nullif" => {
            let f = if theme == "q_nullif" { "NULLIF" } else { *r.pick(&FUNCS[..13]) };
            let argc = match r.below(6) { 0 => 0, 1..=3 => 1, 4 => 2, _ => 3 };
            // (now and then the smallest BIGINT / INT: ABS of them has no value of their own type)
            let args: Vec<E> = (0..argc).map(|_| match r.below(11) { 0 | 1 => E::Null, 2 | 3 => lit_e(r, 'i'), 4 | 5 => lit_e(r, 't'), 6 | 7 => lit_e(r, 'd'), 8 => E::Int([i64::MIN, -2147483648, i64::MAX][r.below(3) as usize]), _ => E::Col(any_col(r, t).0.clone()) }).collect();
            if theme == "q_func" && r.chance(1, 8) {
                // a numeric function of the smallest / largest BIGINT or the smallest INT
                tag("fn_extreme_int");
                let f = *r.pick(&["ABS", "ABS", "CEIL", "FLOOR", "ROUND", "SQRT"]);
                let e = E::Fn(f.to_string(), vec![E::Int([i64::MIN, -2147483648, i64::MAX][r.below(3) as usize])]);
                return sel(t, vec![e], None);
            }
            tag(&format!("fn_{}", f.to_lowercase()));
            tag(&format!("argc{argc}"));
            let e = if r.chance(1, 12) { E::Fn("NOSUCHFN".into(), args) } else { E::Fn(f.to_string(), args) };
            if r.chance(1, 4) { sel(t, vec![E::Col(anyc.0.clone())], Some(E::Bin("eq", b(e), b(E::Int(1))))) } else { sel(t, vec![e], None) }
        }
        "q_agg" => {
            let a = *r.pick(&AGGS);
            tag(&format!("agg_{}", a.to_lowercase()));
            let arg = match r.below(4) { 0 => E::Null, 1 => lit_e(r, 'i'), _ => E::Col(any_col(r, t).0.clone()) };
            let item = if r.chance(1, 4) { E::CountStar } else { E::Agg(a.to_string(), b(arg)) };
            let group = if r.chance(1, 2) { tag("group_by"); Some(any_col(r, t).0.clone()) } else { None };
            let items = match (&group, r.chance(1, 2)) { (Some(g), true) => vec![E::Col(g.clone()), item], _ => vec![item] };
            Q::Sel { tbl: t.name.clone(), items, wh: if r.chance(1, 3) { plain_where_e(r, t) } else { None }, group, having: None, order: None, limit: None }
        }
        "q_having" => {
            tag("having");
            let g = any_col(r, t).0.clone();
            Q::Sel { tbl: t.name.clone(), items: vec![E::Col(g.clone()), E::CountStar], wh: None, group: Some(g), having: Some(E::Bin("gt", b(E::CountStar), b(E::Int(0)))), order: None, limit: None }
        }
        "q_case" => {
            tag("case");
            let n = 1 + r.below(3) as usize;
            let arms: Vec<(E, E)> = (0..n).map(|_| (plain_where_e(r, t).unwrap_or(E::Bool(true)), lit_e(r, 'i'))).collect();
            let els = if r.chance(2, 3) { Some(b(lit_e(r, 'i'))) } else { None };
            let e = E::Case(arms, els);
            if r.chance(1, 3) { sel(t, vec![E::Col(anyc.0.clone())], Some(E::Bin("eq", b(e), b(E::Int(1))))) } else { sel(t, vec![e], None) }
        }
        "q_subquery" => {
            let t2 = any_table(r, s);
            let c2 = any_col(r, t2).0.clone();
            match r.below(4) {
                0 => { tag("exists"); sel(t, vec![E::Col(anyc.0.clone())], Some(E::Exists(t2.name.clone()))) }
                1 => { tag("in_subquery"); sel(t, vec![E::Col(anyc.0.clone())], Some(E::InSub(t2.name.clone(), c2, b(E::Col(anyc.0.clone()))))) }
                2 => { tag("scalar_subquery"); sel(t, vec![E::SSub(t2.name.clone(), c2)], None) }
                _ => { tag("subquery_unknown"); sel(t, vec![E::Col(anyc.0.clone())], Some(E::InSub("nosuch".into(), "id".into(), b(E::Int(1))))) }
            }
        }
        "q_div0" => {
            let num = if r.chance(1, 2) { int_e(r, t, 1) } else { E::Int(r.range(0, 9)) };
            let op = ["div", "mod"][r.below(2) as usize];
            match r.below(5) {
                0 | 1 => { tag("div0_item"); sel(t, vec![E::Bin(op, b(num), b(E::Int(0)))], None) }
                2 => { tag("div0_where"); sel(t, vec![E::Col(anyc.0.clone())], Some(E::Bin("eq", b(E::Bin(op, b(num), b(E::Int(0)))), b(E::Int(1))))) }
                3 => { tag("div0_double"); sel(t, vec![E::Bin(op, b(E::Dbl(r.range(0, 9))), b(E::Dbl(0)))], None) }
                _ => { tag("div0_update"); match col_of(r, t, &['i', 'I']) { Some(c) => Q::Upd { tbl: t.name.clone(), col: c.0.clone(), val: E::Bin(op, b(E::Col(c.0.clone())), b(E::Int(0))), wh: None }, None => sel(t, vec![E::Bin(op, b(E::Int(1)), b(E::Int(0)))], None) } }
            }
        }
        "q_overflow" | "failed_update" => {
            let big = [2147483647i64, -2147483648, 4294967295, 9223372036854775807, -9223372036854775807, 3037000500, 100000000000][r.below(7) as usize];
            let c = col_of(r, t, &['i', 'I', 'u', 'U']).cloned().unwrap_or(anyc.clone());
            match if theme == "failed_update" { 4 + r.below(3) } else { r.below(4) } {
                0 => { tag("ovf_add"); sel(t, vec![E::Bin("add", b(E::Col(c.0.clone())), b(E::Int(big)))], None) }
                1 => { tag("ovf_mul"); sel(t, vec![E::Bin("mul", b(E::Col(c.0.clone())), b(E::Int(big)))], None) }
                2 => { tag("ovf_lit"); sel(t, vec![E::Bin(["add", "mul", "sub"][r.below(3) as usize], b(E::Int(big)), b(E::Int(big)))], None) }
                3 => { tag("ovf_neg"); sel(t, vec![E::Un("neg", b(E::Bin("sub", b(E::Int(-9223372036854775807)), b(E::Int(1)))))], None) }
                4 => { tag("ovf_update"); Q::Upd { tbl: t.name.clone(), col: c.0.clone(), val: E::Bin("mul", b(E::Col(c.0.clone())), b(E::Int(big))), wh: None } }
                5 => { tag("ovf_update_second_row"); Q::Upd { tbl: t.name.clone(), col: "id".into(), val: E::Bin("mul", b(E::Col("id".into())), b(E::Int(-9223372036854775807))), wh: None } }
                _ => { tag("div0_update_second_row"); Q::Upd { tbl: t.name.clone(), col: c.0.clone(), val: E::Bin("div", b(E::Col(c.0.clone())), b(E::Bin("sub", b(E::Col("id".into())), b(E::Int(r.range(2, 3)))))), wh: None } }
            }
        }
        _ => plain_q(r, s),
    }
}

fn plain_q_sel(r: &mut Rng, t: &Table) -> Q {
    let items: Vec<E> = (0..1 + r.below(3)).map(|_| E::Col(any_col(r, t).0.clone())).collect();
    let wh = if r.chance(1, 2) { plain_where_e(r, t) } else { None };
    sel(t, items, wh)
}

// ------------------------------------------------------------------------------------------------ cases

/// `*` anywhere but in `SELECT * FROM` / `SELECT COUNT(*) FROM`: the evaluator has no arm for a star used as a value
/// (region `star_expr` of the known findings), so the other themes keep it out of their strings.
fn stray_star(sql: &str) -> bool {
    let up = sql.to_uppercase();
    up.replace("SELECT * FROM", "").replace("SELECT COUNT(*) FROM", "").contains('*')
}

/// first word of a string as the lexer would see it (unknown characters are skipped)
fn first_word(sql: &str) -> String {
    sql.chars().skip_while(|c| !c.is_alphabetic() && *c != '_').take_while(|c| c.is_alphanumeric() || *c == '_').collect::<String>().to_uppercase()
}

/// Two or more UPDATEs followed by a DELETE inside one session (measurement tag `upd_upd_del`): rows that carry several
/// versions written by one transaction — a finding until the tuple fixes 3b34b0e, c92877b, 334c352, cf3800e, 0775d08.
fn upd_upd_del(ops: &[String]) -> bool {
    let mut upd = 0;
    for o in ops {
        let (u, d) = if let Some(h) = o.strip_prefix("x:") {
            let w = first_word(&String::from_utf8_lossy(&unhex(h).unwrap_or_default()));
            (w == "UPDATE", w == "DELETE")
        } else {
            (o.starts_with("q:upd,"), o.starts_with("q:del,"))
        };
        if u {
            upd += 1;
        }
        if d && upd >= 2 {
            return true;
        }
    }
    false
}


/// statements that fail (or not) after having processed some rows: a failed statement must leave nothing behind
fn add_tag(tags: &mut Vec<String>, x: &str) {
    if !tags.iter().any(|y| y == x) {
        tags.push(x.to_string())
    }
}

fn atomicity_stmt(r: &mut Rng, s: &[Table], tags: &mut Vec<String>, unique: bool) -> String {
    let t = any_table(r, s);
    let good = |r: &mut Rng, id: i64| format!("({})", row_sql(r, t, id));
    let base = 500 + r.range(0, 400);
    // statements on a table with a UNIQUE column belong to the theme `unique_violation`
    let kind = if unique { [3u64, 4, 4, 5, 6, 0, 8][r.below(7) as usize] } else { [0u64, 1, 2, 7, 8][r.below(5) as usize] };
    match kind {
        0 => {
            add_tag(tags, "multi_insert_ok");
            format!("INSERT INTO {} VALUES {}, {}, {}", t.name, good(r, base), good(r, base + 1), good(r, base + 2))
        }
        1 => {
            add_tag(tags, "multi_insert_bad_type_last");
            let bad: Vec<String> = t.cols.iter().enumerate().map(|(i, (_, ty))| if i == 0 { (base + 2).to_string() } else if *ty == 't' { "TRUE".to_string() } else { "'zz'".to_string() }).collect();
            format!("INSERT INTO {} VALUES {}, {}, ({})", t.name, good(r, base), good(r, base + 1), bad.join(", "))
        }
        2 => {
            add_tag(tags, "multi_insert_bad_arity_last");
            format!("INSERT INTO {} VALUES {}, {}, ({})", t.name, good(r, base), good(r, base + 1), base + 2)
        }
        3 => {
            add_tag(tags, "unique_table");
            "CREATE TABLE nt (id BIGINT, v INT, w TEXT, UNIQUE(v))".to_string()
        }
        4 => {
            add_tag(tags, "multi_insert_unique_last");
            let v = r.range(0, 50);
            format!("INSERT INTO nt VALUES ({}, {}, 'a'), ({}, {}, 'b'), ({}, {}, 'c')", base, v, base + 1, v + 1, base + 2, v)
        }
        5 => {
            add_tag(tags, "update_unique_all");
            format!("UPDATE nt SET v = {}", r.range(0, 50))
        }
        6 => {
            add_tag(tags, "multi_insert_null_last");
            format!("INSERT INTO nt VALUES ({}, {}, 'a'), ({}, NULL, NULL), (NULL, NULL, NULL)", base, 100 + r.range(0, 900), base + 1)
        }
        7 => {
            add_tag(tags, "update_bad_type_all");
            let c = any_col(r, t).clone();
            format!("UPDATE {} SET {} = {}", t.name, c.0, if c.1 == 't' { "TRUE" } else { "'zz'" })
        }
        _ => {
            // doubles the table: at most twice per case
            if tags.iter().filter(|x| x.starts_with("insert_select")).count() >= 2 {
                return format!("SELECT COUNT(*) FROM {}", t.name);
            }
            let k = tags.iter().filter(|x| x.starts_with("insert_select")).count();
            tags.push(format!("insert_select{}", k + 1));
            format!("INSERT INTO {} SELECT * FROM {}", t.name, t.name)
        }
    }
}


/// `INSERT INTO target SELECT … FROM source …` over tables that span several B+tree pages: every combination of
/// DISTINCT, WHERE, GROUP BY / aggregates, self-join, ORDER BY (one or two keys, asc / desc), LIMIT / OFFSET, reading
/// the target itself or the twin table.  Inserted ids are shifted past 1000 and sources are bounded (WHERE id <= k or
/// LIMIT), so that a case grows linearly.
fn insert_select_stmt(r: &mut Rng, k: usize, tags: &mut Vec<String>) -> String {
    let target = ["t1", "t2"][r.below(2) as usize];
    let src = if r.chance(2, 3) { target } else if target == "t1" { "t2" } else { "t1" };
    add_tag(tags, if src == target { "is_self" } else { "is_other" });
    let shift = 1000 * (k as i64 + 1);
    let shape = r.below(10);
    let (list, from, group, alias) = match shape {
        0..=4 => (format!("id + {shift}, a, b"), src.to_string(), String::new(), ""),
        5 => {
            add_tag(tags, "is_distinct");
            (format!("DISTINCT id + {shift}, a, b"), src.to_string(), String::new(), "")
        }
        6 | 7 => {
            add_tag(tags, "is_group_by");
            (format!("MAX(id) + {shift}, a, MIN(b)"), src.to_string(), " GROUP BY a".to_string(), "")
        }
        _ => {
            add_tag(tags, "is_self_join");
            (format!("x.id + {shift}, x.a, y.b"), format!("{src} x JOIN {src} y ON x.id = y.id"), String::new(), "x.")
        }
    };
    let mut sql = format!("INSERT INTO {target} SELECT {list} FROM {from}");
    let bounded_by_where = r.chance(2, 3);
    if bounded_by_where {
        add_tag(tags, "is_where");
        let w = match r.below(3) {
            0 => format!("{alias}id <= {}", 10 + r.range(5, 40)),
            1 => format!("{alias}a = {} AND {alias}id <= 200", r.range(0, 6)),
            _ => format!("{alias}id >= {} AND {alias}id <= {}", 10 + r.range(0, 30), 40 + r.range(0, 40)),
        };
        sql.push_str(&format!(" WHERE {w}"));
    }
    // GROUP BY goes after WHERE
    sql.push_str(&group);
    let grouped = !group.is_empty();
    match r.below(8) {
        0 | 1 => {}
        2 => {
            add_tag(tags, "is_order_asc");
            sql.push_str(&if grouped { " ORDER BY a".to_string() } else { format!(" ORDER BY {alias}id") })
        }
        3 => {
            add_tag(tags, "is_order_desc");
            sql.push_str(&if grouped { " ORDER BY a DESC".to_string() } else { format!(" ORDER BY {alias}id DESC") })
        }
        4 => {
            add_tag(tags, "is_order_two_keys");
            sql.push_str(&if grouped { " ORDER BY a DESC".to_string() } else { format!(" ORDER BY {alias}a, {alias}id") })
        }
        5 => {
            add_tag(tags, "is_order_two_keys");
            sql.push_str(&if grouped { " ORDER BY a".to_string() } else { format!(" ORDER BY {alias}a DESC, {alias}id ASC") })
        }
        6 => {
            add_tag(tags, "is_order_text");
            sql.push_str(&if grouped { " ORDER BY a".to_string() } else { format!(" ORDER BY {}b", if alias.is_empty() { "" } else { "y." }) })
        }
        _ => {
            add_tag(tags, "is_order_asc");
            sql.push_str(&if grouped { " ORDER BY a ASC".to_string() } else { format!(" ORDER BY {alias}id ASC") })
        }
    }
    if !bounded_by_where || r.chance(1, 3) {
        add_tag(tags, "is_limit");
        sql.push_str(&format!(" LIMIT {}", 1 + r.range(0, 30)));
        if r.chance(1, 3) {
            add_tag(tags, "is_offset");
            sql.push_str(&format!(" OFFSET {}", r.range(0, 12)));
        }
    }
    sql
}

fn star_expr_stmt(r: &mut Rng, s: &[Table], tags: &mut Vec<String>) -> String {
    let t = any_table(r, s);
    let c = any_col(r, t).0.clone();
    let d = 1 + r.below(12) as usize;
    let (tag, sql) = match r.below(9) {
        8 => ("agg_in_where", format!("SELECT * FROM {} WHERE id = {} OR {} = 3", t.name, r.range(1, 4), ["COUNT(*)", "COUNT(id)", "SUM(id)", "MAX(id)"][r.below(4) as usize])),
        0 => ("star_in_func", format!("SELECT {}(*) FROM {}", ["COUN", "ABS", "LENGTH", "NOSUCH"][r.below(4) as usize], t.name)),
        1 => ("star_in_where", format!("SELECT {} FROM {} WHERE * = {}", c, t.name, r.range(0, 3))),
        2 => ("star_in_parens", format!("SELECT (*) FROM {}", t.name)),
        3 => ("star_operand", format!("SELECT {} + * FROM {}", c, t.name)),
        4 => ("star_after_dot", format!("SELECT {} FROM {} x WHERE x.* = 1", c, t.name)),
        5 => ("star_in_set", format!("UPDATE {} SET {} = * WHERE id = 1", t.name, c)),
        6 => ("nested_case", format!("SELECT {}1{} FROM {}", "CASE WHEN 1 = 1 THEN ".repeat(d), " END".repeat(d), t.name)),
        _ => ("nested_exists", format!("SELECT * FROM {} WHERE {}1 = 1{}", t.name, "EXISTS (SELECT * FROM t1 WHERE ".repeat(d), ")".repeat(d))),
    };
    if !tags.iter().any(|x| x == tag) {
        tags.push(tag.to_string());
    }
    sql
}

fn xop(s: &str) -> String {
    format!("x:{}", hex_or_dash(s.as_bytes()))
}
fn xop_bytes(bs: &[u8]) -> String {
    format!("x:{}", hex_or_dash(bs))
}

pub fn gen_case(theme: &str, r: &mut Rng) -> Case {
    let mut schema = gen_schema(r);
    if theme == "insert_select" {
        // twin tables, so that a SELECT from one fits the other
        let cols = vec![("id".to_string(), 'I'), ("a".to_string(), 'I'), ("b".to_string(), 't')];
        schema = vec![Table { name: "t1".into(), cols: cols.clone() }, Table { name: "t2".into(), cols }];
    }
    let sess = theme == "sess_dml" || theme == "sess_atomicity" || (theme != "atomicity" && theme != "unique_violation" && r.chance(1, 3));
    let pool = 1 + r.below(3) as usize;
    let mut tags: Vec<String> = vec![theme.to_string(), format!("pool{pool}"), format!("tables{}", schema.len())];
    let mut ops: Vec<String> = Vec::new();
    let n = 12 + r.below(16) as usize;
    match theme {
        "valid" => {
            (0..n).for_each(|_| ops.push(xop(&valid_stmt(r, &schema))));
            // multi-row inserts that succeed, and up to two INSERT … SELECT from the table itself
            for k in 0..3 {
                let t = any_table(r, &schema);
                let base = 500 + 10 * k + r.range(0, 5);
                let at = r.below(ops.len() as u64) as usize;
                let sql = if k < 2 && r.chance(1, 2) {
                    tags.push(format!("insert_select{}", k + 1));
                    format!("INSERT INTO {} SELECT * FROM {}", t.name, t.name)
                } else {
                    add_tag(&mut tags, "multi_insert_ok");
                    format!("INSERT INTO {} VALUES ({}), ({}), ({})", t.name, row_sql(r, t, base), row_sql(r, t, base + 1), row_sql(r, t, base + 2))
                };
                ops.insert(at, xop(&sql));
            }
        }
        "insert_select" => {
            // both tables grow past one B+tree page: 60-160 rows, short or wide
            let wide = r.chance(1, 3);
            tags.push(if wide { "is_wide_rows" } else { "is_short_rows" }.into());
            for t in ["t1", "t2"] {
                let batches = 3 + r.below(6) as i64;
                for bt in 0..batches {
                    let rows: Vec<String> = (0..20)
                        .map(|i| {
                            let id = 10 + bt * 20 + i;
                            let text = if wide { format!("{}{}", "w".repeat(150 + (id as usize * 7) % 200), id) } else { format!("row{id}") };
                            format!("({}, {}, '{}')", id, id % 7, text)
                        })
                        .collect();
                    ops.push(xop(&format!("INSERT INTO {} VALUES {}", t, rows.join(", "))));
                }
            }
            let m = 8 + r.below(8) as usize;
            for k in 0..m {
                let v = match r.below(8) {
                    0 => format!("SELECT COUNT(*) FROM {}", ["t1", "t2"][r.below(2) as usize]),
                    1 => valid_stmt(r, &schema),
                    _ => insert_select_stmt(r, k, &mut tags),
                };
                ops.push(xop(&v));
            }
        }
        "random_chars" => (0..n).for_each(|_| ops.push(xop(&random_chars(r)))),
        "lossy_bytes" => (0..n).for_each(|_| {
            let bs = r.rbytes(0, 300);
            ops.push(xop_bytes(&bs))
        }),
        "soup" => (0..n).for_each(|_| ops.push(xop(&soup(r, &schema)))),
        "truncated" => (0..n).for_each(|_| {
            let v = if r.chance(1, 5) { ddl_stmt(r, &schema) } else { valid_stmt(r, &schema) };
            let cs: Vec<char> = v.chars().collect();
            let k = r.below(cs.len() as u64 + 1) as usize;
            ops.push(xop(&cs[..k].iter().collect::<String>()))
        }),
        "mutated" => (0..n).for_each(|_| {
            let v = if r.chance(1, 5) { ddl_stmt(r, &schema) } else { valid_stmt(r, &schema) };
            let mut m = mutate(r, &v, &schema);
            for _ in 0..8 {
                if !stray_star(&m) {
                    break;
                }
                m = mutate(r, &v, &schema);
            }
            if stray_star(&m) {
                m = v;
            }
            ops.push(xop(&m))
        }),
        "atomicity" | "sess_atomicity" | "unique_violation" => (0..n).for_each(|_| {
            let v = if r.chance(1, 4) { valid_stmt(r, &schema) } else { atomicity_stmt(r, &schema, &mut tags, theme == "unique_violation") };
            ops.push(xop(&v))
        }),
        "star_expr" => (0..n).for_each(|_| {
            let v = if r.chance(1, 3) { valid_stmt(r, &schema) } else { star_expr_stmt(r, &schema, &mut tags) };
            ops.push(xop(&v))
        }),
        "ddl" => (0..n).for_each(|_| {
            let v = if r.chance(1, 4) { valid_stmt(r, &schema) } else { ddl_stmt(r, &schema) };
            ops.push(xop(&v))
        }),
        "ddl_alter" => (0..n).for_each(|_| {
            let v = match r.below(4) {
                0 => valid_stmt(r, &schema),
                1 => ddl_stmt(r, &schema),
                _ => alter_stmt(r, &schema),
            };
            ops.push(xop(&v))
        }),
        "oversized" => (0..6).for_each(|_| {
            let v = oversized(r, &schema, &mut tags);
            ops.push(xop(&v));
            ops.push(xop(&valid_stmt(r, &schema)))
        }),
        "long_garbage" => (0..4).for_each(|_| {
            let v = long_garbage(r, &mut tags);
            ops.push(xop(&v));
            ops.push(xop(&valid_stmt(r, &schema)))
        }),
        "deep_nesting" => (0..5).for_each(|_| {
            let v = deep(r, &schema, &mut tags);
            ops.push(xop(&v));
            ops.push(xop(&valid_stmt(r, &schema)))
        }),
        "many_versions" => {
            // one row updated again and again; then read, update and delete it
            let t = any_table(r, &schema).clone();
            let cnt = [40usize, 200, 254, 255, 256, 257, 300][r.below(7) as usize];
            tags.push(format!("versions{}", if cnt < 255 { "<255" } else { ">=255" }));
            let c = any_col(r, &t).clone();
            for i in 0..cnt {
                let val = match c.1 {
                    'i' | 'I' | 'u' | 'U' => (i % 100).to_string(),
                    'f' | 'd' => format!("{}.5", i % 100),
                    't' => format!("'v{}'", i % 100),
                    _ => if i % 2 == 0 { "TRUE" } else { "FALSE" }.to_string(),
                };
                let col = if c.0 == "id" { t.cols.get(1).map(|x| x.0.clone()).unwrap_or("id".into()) } else { c.0.clone() };
                if col == "id" {
                    ops.push(xop(&format!("UPDATE {} SET id = {} WHERE id = {}", t.name, 1000 + i + 1, if i == 0 { 1 } else { 1000 + i })));
                } else {
                    ops.push(xop(&format!("UPDATE {} SET {} = {} WHERE id = 1", t.name, col, val)));
                }
            }
            ops.push(xop(&format!("SELECT * FROM {}", t.name)));
            if !sess {
                ops.push(xop(&format!("DELETE FROM {} WHERE id = 1", t.name)));
                ops.push(xop(&format!("SELECT * FROM {}", t.name)));
            }
        }
        _ => {
            // grammar themes: themed statements mixed with plain ones
            for _ in 0..n {
                let th = if theme == "sess_dml" { "q_dml" } else { theme };
                let q = if th == "q_plain" || r.chance(1, 3) { plain_q(r, &schema) } else { themed_q(th, r, &schema, &mut tags) };
                ops.push(format!("q:{}", tok_q(&q)));
            }
        }
    }
    if sess && upd_upd_del(&ops) {
        tags.push("upd_upd_del".into());
    }
    tags.push(if sess { "sess" } else { "db" }.into());
    if theme != "valid" {
        tags.push("nt".into());
    }
    tags.push(if ops.first().is_some_and(|o| o.starts_with("q:")) { "grammar" } else { "strings" }.into());
    let line = format!("fz {} {} {} | {}", if sess { "sess" } else { "db" }, pool, show_schema(&schema), ops.join(" ; "));
    Case { line, tags }
}

pub fn gen_cases(rng: &mut Rng, tier: Tier) -> Vec<Case> {
    let n = if tier == Tier::Quick { 720 } else { 7200 };
    let clean: Vec<&str> = THEMES.iter().filter(|t| !t.1).map(|t| t.0).collect();
    let risky: Vec<&str> = THEMES.iter().filter(|t| t.1).map(|t| t.0).collect();
    let only = std::env::var("AXH_FUZZ_THEME").ok();
    let mut cases = Vec::new();
    let (mut ci, mut ri) = (0usize, 0usize);
    for i in 0..n {
        let mut r = rng.fork(&format!("case{i}"));
        // 3 of every 4 cases come from themes without a known finding
        let theme = if let Some(t) = &only {
            t.as_str()
        } else if i % 4 != 3 || risky.is_empty() {
            ci += 1;
            clean[(ci - 1) % clean.len()]
        } else {
            ri += 1;
            risky[(ri - 1) % risky.len()]
        };
        cases.push(gen_case(theme, &mut r));
    }
    for l in ["fz db 0 t1:id.I | x:00", "fz db 1 t1:id.I | y:00", "fz xx 1 t1:id.I | x:00", "fz db 1 t1:id.Z | x:00", "fz db 1 t1:id.I | q:sel,t1,0,nw,ng,nh,no,nl", "fz db 1 t1:id.I | x:0", "fz db 1 | x:00", "fz db 1 t1:id.I | q:sel,t1,1,c.id,nw,ng,nh,no"] {
        cases.push(Case::new(l.to_string(), &["malformed"]));
    }
    cases
}
