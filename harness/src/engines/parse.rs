//! Engine `parse` (C05): expression text through the real Pratt parser (facade `axmosdb::verif::parse`), AST dump
//! compared with the Lean parser model running on the extracted binding-power table.
//! Case syntax: see `lean/AxVerif/Driver/Parse.lean`.
use super::{Case, Engine, Tier};
use crate::rng::Rng;
use crate::util::{hex_or_dash, unhex};
use axmosdb::verif::parse as facade;

pub struct ParseEngine;

#[derive(Clone, Debug)]
enum X {
    Num(i64),
    Str(String),
    Bool(bool),
    Null,
    Id(String),
    Qid(String, String),
    Un(&'static str, Box<X>),                 // pos neg not
    Bin(&'static str, Box<X>, Box<X>),
    Between(bool, Box<X>, Box<X>, Box<X>),
    In(bool, Box<X>, Vec<X>),
}

/// (left, right) binding power of the documented grammar
fn power(op: &str) -> (u8, u8) {
    match op {
        "or" => (1, 2),
        "and" => (3, 4),
        "plus" | "minus" | "concat" => (7, 8),
        "mul" | "div" | "mod" => (9, 10),
        _ => (5, 6),
    }
}

fn cmp_level(op: &str) -> bool {
    power(op) == (5, 6)
}

fn level(x: &X) -> u8 {
    match x {
        X::Un("not", _) => 5,
        X::Un(..) => 11,
        X::Bin(op, ..) => power(op).0,
        X::Between(..) | X::In(..) => 5,
        _ => 200,
    }
}

fn sym(op: &str) -> &'static str {
    match op {
        "or" => "OR",
        "and" => "AND",
        "eq" => "=",
        "neq" => "<>",
        "lt" => "<",
        "gt" => ">",
        "le" => "<=",
        "ge" => ">=",
        "like" => "LIKE",
        "notlike" => "NOT LIKE",
        "plus" => "+",
        "minus" => "-",
        "concat" => "||",
        "mul" => "*",
        "div" => "/",
        "mod" => "%",
        "is" => "IS",
        _ => "IS NOT",
    }
}

/// words of the minimal-parentheses rendering (the same printer as `Parser.body` in the Lean model);
/// with `extra` some operands get redundant parentheses
fn words(x: &X, need: u8, out: &mut Vec<String>, extra: &mut dyn FnMut() -> bool) {
    let wrap = level(x) < need || (extra() && !matches!(x, X::Num(n) if *n < 0));
    if wrap {
        out.push("(".into());
    }
    match x {
        X::Num(n) => {
            if *n < 0 {
                out.push("-".into());
                out.push(n.unsigned_abs().to_string());
            } else {
                out.push(n.to_string())
            }
        }
        X::Str(s) => out.push(format!("'{}'", s.replace('\'', "''"))),
        X::Bool(b) => out.push(if *b { "TRUE" } else { "FALSE" }.into()),
        X::Null => out.push("NULL".into()),
        X::Id(s) => out.push(s.clone()),
        X::Qid(t, c) => out.push(format!("{}.{}", t, c)),
        X::Un(op, e) => {
            out.push(match *op {
                "pos" => "+",
                "neg" => "-",
                _ => "NOT",
            }
            .into());
            words(e, level(x), out, extra);
        }
        X::Bin(op, l, r) => {
            let (lb, rb) = power(op);
            words(l, if cmp_level(op) { rb } else { lb }, out, extra);
            out.push(sym(op).into());
            words(r, rb, out, extra);
        }
        X::Between(neg, e, lo, hi) => {
            words(e, 6, out, extra);
            out.push(if *neg { "NOT BETWEEN" } else { "BETWEEN" }.into());
            words(lo, 7, out, extra);
            out.push("AND".into());
            words(hi, 7, out, extra);
        }
        X::In(neg, e, items) => {
            words(e, 6, out, extra);
            out.push(if *neg { "NOT IN" } else { "IN" }.into());
            out.push("(".into());
            for (i, it) in items.iter().enumerate() {
                if i > 0 {
                    out.push(",".into());
                }
                words(it, 0, out, extra);
            }
            out.push(")".into());
        }
    }
    if wrap {
        out.push(")".into());
    }
}

fn gen_x(rng: &mut Rng, depth: u32) -> X {
    if depth == 0 || rng.chance(1, 4) {
        return match rng.below(8) {
            0 => X::Num(rng.range(-9, 99)),
            1 => X::Num(rng.range(0, 5)),
            2 => X::Str((*rng.pick(&["", "a", "it's", "x%", "NOT", "a b"])).to_string()),
            3 => X::Bool(rng.chance(1, 2)),
            4 => X::Null,
            5 => X::Qid((*rng.pick(&["t", "r0", "T_1"])).to_string(), (*rng.pick(&["c", "c1", "x_y"])).to_string()),
            _ => X::Id((*rng.pick(&["a", "b", "c", "id", "x1", "_u", "Nota", "inx", "ORDERS"])).to_string()),
        };
    }
    let d = depth - 1;
    match rng.below(14) {
        0 => {
            // `- <non-negative number>` is a literal for the parser, not a unary minus
            let e = gen_x(rng, d);
            match e {
                X::Num(n) if n >= 0 => X::Num(-n),
                e => X::Un("neg", Box::new(e)),
            }
        }
        1 => X::Un("pos", Box::new(gen_x(rng, d))),
        2 | 3 => X::Un("not", Box::new(gen_x(rng, d))),
        4 => X::Between(rng.chance(1, 2), Box::new(gen_x(rng, d)), Box::new(gen_x(rng, d)), Box::new(gen_x(rng, d))),
        5 => {
            let n = 1 + rng.below(3) as usize;
            X::In(rng.chance(1, 2), Box::new(gen_x(rng, d)), (0..n).map(|_| gen_x(rng, d)).collect())
        }
        6 => X::Bin(*rng.pick(&["is", "isnot"]), Box::new(gen_x(rng, d)), Box::new(X::Null)),
        _ => {
            let op = *rng.pick(&[
                "or", "and", "eq", "neq", "lt", "gt", "le", "ge", "like", "notlike", "plus", "minus", "concat", "mul",
                "div", "mod", "or", "and", "plus", "mul",
            ]);
            X::Bin(op, Box::new(gen_x(rng, d)), Box::new(gen_x(rng, d)))
        }
    }
}

fn features(x: &X, tags: &mut std::collections::BTreeSet<String>) {
    match x {
        X::Un(op, e) => {
            tags.insert(format!("un.{}", op));
            if let X::Bin(o2, ..) = &**e {
                tags.insert(format!("un.{}.over.{}", op, o2));
            }
            features(e, tags)
        }
        X::Bin(op, l, r) => {
            tags.insert(format!("bin.{}", op));
            for (side, c) in [("l", l), ("r", r)] {
                if let X::Bin(o2, ..) = &**c {
                    let rel = match power(o2).0.cmp(&power(op).0) {
                        std::cmp::Ordering::Less => "lower",
                        std::cmp::Ordering::Equal => "same",
                        std::cmp::Ordering::Greater => "higher",
                    };
                    tags.insert(format!("nest.{}.{}", side, rel));
                }
                if let X::Un(o2, _) = &**c {
                    tags.insert(format!("nest.{}.un.{}", side, o2));
                }
            }
            features(l, tags);
            features(r, tags)
        }
        X::Between(neg, e, lo, hi) => {
            tags.insert(if *neg { "notbetween".into() } else { "between".into() });
            features(e, tags);
            features(lo, tags);
            features(hi, tags)
        }
        X::In(neg, e, items) => {
            tags.insert(if *neg { "notin".into() } else { "in".into() });
            features(e, tags);
            for i in items {
                features(i, tags)
            }
        }
        X::Num(n) if *n < 0 => {
            tags.insert("neg-literal".into());
        }
        _ => {}
    }
}

/// hand-written precedence traps and lexical oddities
const TRICKY: [&str; 40] = [
    "NOT a AND b",
    "NOT a > 10 AND id < 2",
    "NOT a OR b AND c",
    "NOT NOT a",
    "NOT a = b = c",
    "a BETWEEN 1 AND 2 AND c",
    "a NOT BETWEEN 1 AND 2 OR c",
    "a BETWEEN 1 + 2 AND 3 * 4",
    "NOT a BETWEEN 1 AND 2",
    "NOT x IN (1, 2)",
    "x NOT IN (1)",
    "NOT x NOT IN (1, 2, 3)",
    "x IN (1, 2) AND y",
    "- - 1",
    "- - a",
    "- a * b",
    "x * - a / b",
    "- a + b",
    "+ a * - b",
    "-1 * 2",
    "a - -1",
    "a -1",
    "a+-1",
    "a * (b + c)",
    "(a + b) * c",
    "a - (b - c)",
    "a - b - c",
    "a / b * c % d",
    "a || b + c",
    "a = b + 1 AND c <> d OR e",
    "a IS NULL AND b IS NOT NULL",
    "NOT a IS NULL",
    "a LIKE 'x%' OR b NOT LIKE '_y'",
    "a NOT LIKE b || c",
    "  a   <=  b  ",
    "a<=b",
    "a<>b",
    "a!=b",
    "t.c = 'it''s'",
    "not A and B or tRuE",
];

fn tricky_bad() -> Vec<&'static str> {
    vec!["", "a +", "a AND", "(a", "a)", "a b", "NOT", "a NOT b", "a BETWEEN 1", "a IN ()", "a IN (1", "a = = b", ", a"]
}

impl Engine for ParseEngine {
    fn gen_cases(&self, rng: &mut Rng, tier: Tier) -> Vec<Case> {
        let n = match tier {
            Tier::Quick => 6000,
            Tier::Thorough => 100_000,
        };
        let mut cases = Vec::new();
        for t in TRICKY {
            cases.push(Case::new(format!("expr {}", hex_or_dash(t.as_bytes())), &["tricky", "nt"]));
        }
        for t in tricky_bad() {
            cases.push(Case::new(format!("expr {}", hex_or_dash(t.as_bytes())), &["malformed", "nt"]));
        }
        for _ in 0..n {
            let depth = rng.range(1, 4) as u32;
            let x = gen_x(rng, depth);
            let mut tags = std::collections::BTreeSet::new();
            features(&x, &mut tags);
            let redundant = rng.chance(1, 4);
            let mut r2 = rng.fork("extra");
            let mut ws = Vec::new();
            words(&x, 0, &mut ws, &mut || redundant && r2.chance(1, 5));
            tags.insert(if redundant { "parens.redundant".into() } else { "parens.minimal".into() });
            // spacing: single blanks, or none where two words cannot merge
            let tight = rng.chance(1, 5);
            let mut text = String::new();
            for (i, w) in ws.iter().enumerate() {
                if i > 0 {
                    let prev = ws[i - 1].as_bytes();
                    let a = *prev.last().unwrap();
                    let b = w.as_bytes()[0];
                    let wordy = |c: u8| c.is_ascii_alphanumeric() || c == b'_' || c == b'\'' || c == b'.';
                    let glue = tight
                        && !(wordy(a) && wordy(b))
                        && !(a == b'-' && b == b'-')
                        && !matches!((a, b), (b'<', b'=') | (b'<', b'>') | (b'>', b'=') | (b'|', b'|') | (b'!', b'='))
                        && !(a == b'<' || a == b'>' || a == b'|' || a == b'!')
                        && !(b == b'=' && (a == b'<' || a == b'>'));
                    if !glue {
                        text.push(' ');
                    }
                }
                if rng.chance(1, 10) && w.bytes().all(|c| c.is_ascii_uppercase() || c == b' ') {
                    text.push_str(&w.to_lowercase());
                } else {
                    text.push_str(w);
                }
            }
            tags.insert(format!("depth.{}", depth));
            tags.insert("nt".into());
            cases.push(Case { line: format!("expr {}", hex_or_dash(text.as_bytes())), tags: tags.into_iter().collect() });
        }
        cases
    }

    fn exec(&mut self, line: &str) -> String {
        let ws: Vec<&str> = line.split_whitespace().collect();
        match ws.as_slice() {
            ["expr", h] => match unhex(h).and_then(|b| String::from_utf8(b).ok()) {
                None => "bad-op".into(),
                Some(text) => match facade::parse_expression_dump(&text) {
                    Ok(d) => format!("ok {}", d),
                    Err(_) => "err".into(),
                },
            },
            ["text", h] => match unhex(h).and_then(|b| String::from_utf8(b).ok()) {
                None => "bad-op".into(),
                Some(t) => t,
            },
            _ => "bad-op".into(),
        }
    }
}

/// `lean/AxVerif/Generated/Parse.lean`: the binding powers the code uses, obtained by evaluating / probing the parser.
pub fn generated() -> Option<(&'static str, String)> {
    let t = facade::binding_powers();
    let get = |name: &str| -> Option<(u8, u8)> { t.iter().find(|(n, _)| n == name).and_then(|(_, v)| *v) };
    let pair = |name: &str| -> String {
        match get(name) {
            Some((l, r)) => format!("({}, {})", l, r),
            None => "(0, 0)".into(),
        }
    };
    let opt = |name: &str| -> String {
        match get(name) {
            Some((l, r)) => format!("some ({}, {})", l, r),
            None => "none".into(),
        }
    };
    let first = |name: &str| -> String { get(name).map(|p| p.0.to_string()).unwrap_or_else(|| "0".into()) };
    let s = format!(
        "/- REGENERATED on every run by `axh extract` from values evaluated out of /repo. Do not edit. -/\n\
import AxVerif.Model.Parser\n\
namespace AxVerif.Generated\n\n\
def parseTable : AxVerif.Parser.Table :=\n  \
{{ or_ := {}, and_ := {}, eq := {}, neq := {}, lt := {}, gt := {}, le := {}, ge := {},\n    \
like := {}, in_ := {}, between := {}, is_ := {}, plus := {}, minus := {},\n    \
star := {}, slash := {}, percent := {}, concat := {},\n    \
notIn := {}, notBetween := {}, notLike := {}, notOther := {},\n    \
comma := {}, rparen := {},\n    \
prefixNot := {}, prefixMinus := {}, prefixPlus := {}, betweenBound := {} }}\n\n\
end AxVerif.Generated\n",
        pair("or"),
        pair("and"),
        pair("eq"),
        pair("neq"),
        pair("lt"),
        pair("gt"),
        pair("le"),
        pair("ge"),
        pair("like"),
        pair("in"),
        pair("between"),
        pair("is"),
        pair("plus"),
        pair("minus"),
        pair("star"),
        pair("slash"),
        pair("percent"),
        pair("concat"),
        opt("not_in"),
        opt("not_between"),
        opt("not_like"),
        opt("not_other"),
        opt("comma"),
        opt("rparen"),
        first("prefix_not"),
        first("prefix_minus"),
        first("prefix_plus"),
        first("between_bound"),
    );
    Some(("Parse.lean", s))
}
