pub fn hex(bs: &[u8]) -> String {
    let mut s = String::with_capacity(bs.len() * 2);
    for b in bs {
        s.push_str(&format!("{:02x}", b));
    }
    s
}
/// `-` stands for the empty byte string so that fields never vanish when a line is split on spaces.
pub fn hex_or_dash(bs: &[u8]) -> String {
    if bs.is_empty() { "-".into() } else { hex(bs) }
}
pub fn unhex(s: &str) -> Option<Vec<u8>> {
    if s == "-" {
        return Some(vec![]);
    }
    if s.len() % 2 != 0 {
        return None;
    }
    let b = s.as_bytes();
    let mut out = Vec::with_capacity(b.len() / 2);
    for i in (0..b.len()).step_by(2) {
        let h = (b[i] as char).to_digit(16)?;
        let l = (b[i + 1] as char).to_digit(16)?;
        out.push((h * 16 + l) as u8);
    }
    Some(out)
}

/// Redirects file descriptor 1 to /dev/null for its lifetime.
pub struct StdoutSilencer {
    saved: i32,
}
impl StdoutSilencer {
    pub fn new() -> Self {
        use std::io::Write;
        let _ = std::io::stdout().flush();
        unsafe {
            let saved = libc::dup(1);
            let null = libc::open(c"/dev/null".as_ptr(), libc::O_WRONLY);
            if saved >= 0 && null >= 0 {
                libc::dup2(null, 1);
            }
            if null >= 0 {
                libc::close(null);
            }
            StdoutSilencer { saved }
        }
    }
}
impl Drop for StdoutSilencer {
    fn drop(&mut self) {
        use std::io::Write;
        let _ = std::io::stdout().flush();
        unsafe {
            if self.saved >= 0 {
                libc::dup2(self.saved, 1);
                libc::close(self.saved);
            }
        }
    }
}
