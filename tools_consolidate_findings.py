#!/usr/bin/env python3
"""Merges known_findings.d/*.json into the single committed known_findings.json (sorted by property, id) and removes the
directory.  The loader of ./check reads both, so this only changes where the entries live."""
import json, glob, os, shutil
ROOT = os.path.dirname(os.path.abspath(__file__))
main = os.path.join(ROOT, "known_findings.json")
d = json.load(open(main))
seen = {e["id"] for e in d["findings"]}
for f in sorted(glob.glob(os.path.join(ROOT, "known_findings.d", "*.json"))):
    for e in json.load(open(f))["findings"]:
        if e["id"] in seen:
            raise SystemExit("duplicate id " + e["id"])
        seen.add(e["id"])
        d["findings"].append(e)
d["findings"].sort(key=lambda e: (e["property"], e["status"] != "finding", e["id"]))
d["_comment"] = ("Committed list of genuine defects of AxmosDB found by these checks. status=finding: still present; the check prints "
                 "KNOWN-FINDING for it and suppresses exactly the failures the entry predicts (flag = the Lean model reproduces the defect, "
                 "region = case tag + failure pattern). status=fixed: repaired in /repo by the named fix: commit "
                 "(`what` starts with `fixed: property=<id> <commit> <what failed>`); suppresses nothing. Never written at run time.")
json.dump(d, open(main, "w"), indent=1, ensure_ascii=False)
shutil.rmtree(os.path.join(ROOT, "known_findings.d"))
print(len(d["findings"]), "entries in known_findings.json")
